"""Socket-less rig for circuits.node (C19).

Several simulated *processes* (each its own Manager tree, never running, driven by tick()) talk through the
real ``circuits.node`` classes: a ``Node(port=…)`` (-> real ``node.Server`` + ``node.Protocol`` per connection) on
the server side and ``Node().add(...)`` (-> real ``node.Client`` + ``Protocol``) on the client side.  Only the
transport is replaced: ``circuits.node.client.TCPClient`` / ``circuits.node.server.TCPServer`` are module globals
which :func:`install` points at two small components that record ``write`` events.  The rig moves the written
bytes to the other end as ``read`` events, cut into chunks as the spec says (never more than BUFSIZE bytes per
read, like a real socket component).
"""
import json
import re

from circuits import BaseComponent, Event, Manager, handler
from circuits.net.events import connect as connect_event, read as read_event
from circuits.node import Node, remote

BUFSIZE = 4096
DELIM = b'~~~'
NAMES = ('ping', 'job', 'echo')


FORGED_KINDS = ('none', 'plain', 'slow', 'raise', 'plain')


def forged_kind(uid):
    """What the application handlers answer to a call that no script describes (a forged packet naming a real event):
    chosen by its first argument if that is an int (-1 plain, -2 coroutine, -3 raise, -4 plain, -5 None, ...), else a value."""
    return FORGED_KINDS[abs(uid) % len(FORGED_KINDS)] if uid is not None else 'plain'


def kind_for(kind, tag):
    """Handler behaviour of target ``tag`` for an event of script kind ``kind``."""
    if kind == 'mixed':
        return 'slow' if tag == 't0' else 'raise'
    if kind == 'mixed2':
        return 'raise' if tag == 't0' else 'slow'
    return kind


class FakeSock:
    """Stands for the accepted socket object of a server side connection (only identity is used)."""

    def __init__(self, label):
        self.label = label
        self.open = True

    def getpeername(self):
        if not self.open:
            raise OSError('closed')
        return ('10.0.0.1', 1)

    def __repr__(self):
        return '<FakeSock %s>' % self.label


class FakeTCPClient(BaseComponent):
    channel = 'client'

    def __init__(self, *args, **kwargs):
        super().__init__(channel=kwargs.get('channel', self.channel))
        self.out = []

    @handler('write')
    def _on_write(self, data, *extra):
        if isinstance(data, (bytes, bytearray)):    # a peer can make the victim fire any event, also a junk `write`
            self.out.append((None, bytes(data)))


class FakeTCPServer(BaseComponent):
    channel = 'server'
    host = '10.0.0.2'
    port = 9

    def __init__(self, bind=None, *args, **kwargs):
        super().__init__(channel=kwargs.get('channel', self.channel))
        self.out = []

    @handler('write')
    def _on_write(self, sock=None, data=None, *extra):
        if isinstance(data, (bytes, bytearray)):
            self.out.append((sock, bytes(data)))


def install():
    import circuits.node.client as c
    import circuits.node.server as s
    c.TCPClient = FakeTCPClient
    s.TCPServer = FakeTCPServer


class go(Event):
    """ask a Caller to start one remote call"""


class probe(Event):
    """local liveness probe"""


class Target(BaseComponent):
    """Application component of the receiving side: records every invocation, answers by the event's script."""

    def init(self, channel, tag, rig, proc):
        self.channel = channel
        self.tag = tag
        self.rig = rig
        self.proc = proc
        self.probes = 0

    @handler('probe')
    def _on_probe(self, n):
        self.probes += 1


class Target0(Target):
    @handler(*NAMES, priority=2)
    def _on_remote_event(self, event, *args, **kwargs):
        return self.rig.invoked(self, event, args, kwargs)


class Target1(Target):
    @handler(*NAMES, priority=1)
    def _on_remote_event(self, event, *args, **kwargs):
        return self.rig.invoked(self, event, args, kwargs)


class Caller(BaseComponent):
    """The sender's waiting handler (three documented ways to wait for a remote result)."""

    def init(self, channel, rig, proc):
        self.channel = channel
        self.rig = rig
        self.proc = proc

    @handler('go')
    def _on_go(self, uid, how, ev, conn, chan):
        node = self.proc.node
        if how == 'call':
            # examples/node/increment: ``(yield self.call(remote(ev, name))).value``
            r = yield self.call(remote(ev, conn, channel=chan))
            self.rig.resumed(uid, r.value, ev)
        elif how == 'client':
            # Client.send(): generator that yields until the answer is there, then yields the Value
            for x in node.get_peer(conn).send(ev):
                if x is None:
                    yield
                else:
                    self.rig.resumed(uid, x.value, ev)
                    break
        elif how == 'server':
            for x in node.server.send(ev, conn):
                if x is None:
                    yield
                else:
                    self.rig.resumed(uid, x.value, ev)
                    break
        elif how == 'server_nores':
            node.server.send(ev, conn, no_result=True)
            self.rig.resumed(uid, None, ev)


class OrderedTasks:
    """Double for ``Manager._tasks`` (a plain set of (event, generator, parent) tuples, iterated via .copy()).

    The tuples hash by object address, so a real set resumes waiting coroutines in an order that differs from run
    to run; with it the order of written packets and the verdict of a *failing* case could differ between two
    executions of one spec.  Insertion order is one of the orders a set may produce."""

    def __init__(self, items=()):
        self._d = dict.fromkeys(items)

    def add(self, g):
        self._d[g] = None

    def remove(self, g):
        del self._d[g]

    def discard(self, g):
        self._d.pop(g, None)

    def __contains__(self, g):
        return g in self._d

    def __len__(self):
        return len(self._d)

    def __iter__(self):
        return iter(list(self._d))

    def copy(self):
        return OrderedTasks(self._d)


class Proc:
    def __init__(self, rig, name):
        self.rig = rig
        self.name = name
        self.root = Manager()
        if isinstance(getattr(self.root, '_tasks', None), set):
            self.root._tasks = OrderedTasks()
        self.node = None
        self.targets = []
        self.caller = None
        self.dead = None  # exception text once tick() raised

    def tick(self):
        if self.dead:
            return
        try:
            self.root.tick()
        except BaseException as e:  # noqa - oracle input
            self.dead = '%s: %s' % (type(e).__name__, str(e)[:200])
            self.rig.escaped.append((self.name, self.dead))


class Link:
    """One direction of one connection: bytes written by ``src`` not yet read by ``dst``."""

    def __init__(self, label, deliver):
        self.label = label
        self.deliver = deliver  # callable(bytes) -> fires the read event at the destination
        self.pending = b''
        self.appended = 0
        self.delivered = 0
        self.chunks = 0
        self.bounds = set()     # stream offsets at which a packet ends
        self.cut_inside = 0     # read boundaries that fell strictly inside a packet

    def append(self, data):
        self.pending += data
        self.appended += len(data)
        self.bounds.add(self.appended)


class Rig:
    NAMES = NAMES
    CHANS = ('c0', 'c1')

    def __init__(self, n_clients, firewalls, scripts, hostile_server=False, hostile_client=False):
        """firewalls: {proc: {'send': set(names), 'recv': set(names)}} (deny lists); scripts: {uid: event spec}."""
        self.scripts = scripts
        self.escaped = []
        self.invocations = []   # (proc, target tag, uid, name, args, kwargs, channels, meta snapshot)
        self.results = {}       # uid -> list of (value, errors flag)
        self.fw_calls = []
        self.wire = []          # (link label, parsed packet or None, raw length)
        self.links = {}
        self.procs = {}
        self.call_ids = {}      # (link label of the call, id repr) -> uid
        self.tampered = 0
        self.forged_runs = []   # handler behaviour chosen for dispatched events that no script describes

        def fw(proc, kind):
            deny = set(firewalls.get(proc, {}).get(kind, ()))
            # 'raise': names for which the RECEIVE predicate fails (it looks up a keyword the event does not carry)
            boom = set(firewalls.get(proc, {}).get('raise', ())) if kind == 'recv' else set()
            if not deny and not boom and not firewalls.get(proc, {}).get('always'):
                return None

            def check(event, sock):
                self.fw_calls.append((proc, kind, event.name))
                if event.name in boom:
                    return event.kwargs['no-such-token'] == 'secret'
                # a predicate need not return a bool: 'how' selects what it returns for reject / accept
                no, yes = [(False, True), (None, 1), (0, 'yes'), ('', [1]), ([], 2.5)][firewalls.get(proc, {}).get('how', 0) % 5]
                return no if event.name in deny else yes
            return check

        # ---- server process
        b = Proc(self, 'B')
        b.node = Node(port=9, server_ip='10.0.0.2', channel='node',
                      receive_event_firewall=fw('B', 'recv'), send_event_firewall=fw('B', 'send')).register(b.root)
        self._app(b)
        self.procs['B'] = b
        self.server_fake = [c for c in b.node.server.components if isinstance(c, FakeTCPServer)][0]
        self.socks = []
        # ---- client processes
        for i in range(n_clients):
            a = Proc(self, 'A%d' % i)
            a.node = Node(channel='node').register(a.root)
            a.chan = a.node.add('b%d' % i, '10.0.0.2', 9, reconnect_delay=0,
                                receive_event_firewall=fw(a.name, 'recv'), send_event_firewall=fw(a.name, 'send'))
            self._app(a)
            self.procs[a.name] = a
        if hostile_client:
            a = self.procs['A0']
            a.hchan = a.node.add('hx', '10.6.6.6', 6, reconnect_delay=0)
        self.settle_all(6)
        # ---- connections
        for i in range(n_clients):
            a = self.procs['A%d' % i]
            sock = FakeSock('s%d' % i)
            self.socks.append(sock)
            b.root.fire(connect_event(sock, '10.0.0.1', 1000 + i), 'node')
            a.fake = [c for c in a.node.get_peer('b%d' % i).components if isinstance(c, FakeTCPClient)][0]
            self.links['A%d>B' % i] = Link('A%d>B' % i, self._to_server(sock))
            self.links['B>A%d' % i] = Link('B>A%d' % i, self._to_client(a, a.chan))
        self.hsock = None
        if hostile_server:
            self.hsock = FakeSock('sH')
            b.root.fire(connect_event(self.hsock, '10.6.6.6', 6), 'node')
            self.links['H>B'] = Link('H>B', self._to_server(self.hsock))
        if hostile_client:
            a = self.procs['A0']
            a.hfake = [c for c in a.node.get_peer('hx').components if isinstance(c, FakeTCPClient)][0]
            self.links['H>A0'] = Link('H>A0', self._to_client(a, a.hchan))
        self.settle_all(4)

    def _app(self, p):
        p.targets = [Target0('c0', 't0', self, p).register(p.root),
                     Target1('c1', 't1', self, p).register(p.root)]
        p.caller = Caller('c0', self, p).register(p.root)

    def _to_server(self, sock):
        b = self.procs['B']
        return lambda data: b.root.fire(read_event(sock, data), 'node')

    def _to_client(self, a, chan):
        return lambda data: a.root.fire(read_event(data), chan)

    def settle_all(self, n):
        for _ in range(n):
            for p in self.procs.values():
                p.tick()

    # ------------------------------------------------------------------ observers
    def invoked(self, target, event, args, kwargs):
        uid = args[0] if args and isinstance(args[0], int) and not isinstance(args[0], bool) else None
        sc = self.scripts.get(uid)
        snap = {}
        if sc is not None:
            for k in list(sc.get('meta', {})) + list(sc.get('tamper_call', {})):
                snap[k] = getattr(event, k, '<absent>')
        self.invocations.append((target.proc.name, target.tag, uid, event.name, list(args), dict(kwargs),
                                 tuple(event.channels), snap))
        if sc is None:
            kind = forged_kind(uid)
            self.forged_runs.append(kind)
            sc = {}
        else:
            kind = kind_for(sc['kind'], target.tag)
        res = {'r': uid, 't': target.tag, 'a': list(args[1:]), 'k': dict(kwargs)}
        if kind == 'plain':
            return res
        if kind == 'none':
            return None
        if kind == 'raise':
            raise RuntimeError('scripted failure of %r' % uid)
        if kind == 'slowraise':
            def slowraise():       # a coroutine handler that fails after it was suspended
                for _ in range(sc.get('slow', 1)):
                    yield
                raise RuntimeError('scripted failure of %r' % uid)
            return slowraise()

        def slow():
            for _ in range(sc.get('slow', 1)):
                yield
            yield res
        return slow()

    def resumed(self, uid, value, ev):
        self.results.setdefault(uid, []).append((value, bool(getattr(ev, 'errors', False)) or bool(getattr(getattr(ev, 'value', None), 'errors', False))))

    # ------------------------------------------------------------------ transport
    def collect(self):
        """Move what the fakes recorded into the links (tampering packets in transit if the script says so)."""
        moved = False
        b = self.procs['B']
        outs = []
        for sock, data in self.server_fake.out:
            if sock is self.hsock:
                self.wire.append(('B>H', self._parse(data), len(data)))
                continue
            i = self.socks.index(sock) if sock in self.socks else None
            if i is None:
                self.wire.append(('B>?', None, len(data)))
                continue
            outs.append(('B>A%d' % i, data))
        del self.server_fake.out[:]
        for name, a in self.procs.items():
            if name == 'B':
                continue
            for _, data in a.fake.out:
                outs.append(('%s>B' % name, data))
            del a.fake.out[:]
            if getattr(a, 'hfake', None) is not None:
                for _, data in a.hfake.out:
                    self.wire.append(('%s>H' % name, self._parse(data), len(data)))
                del a.hfake.out[:]
        for label, data in outs:
            moved = True
            pkt = self._parse(data)
            self.wire.append((label, pkt, len(data)))
            data = self._tamper(label, pkt, data)
            self.links[label].append(data)
        return moved

    @staticmethod
    def _parse(data):
        if not data.endswith(DELIM):
            return None
        try:
            x = json.loads(data[:-3].decode('utf-8'))
        except (ValueError, RecursionError):
            return None
        return x if isinstance(x, dict) else None

    def _tamper(self, label, pkt, data):
        if pkt is None:
            return data
        if 'name' in pkt:
            args = pkt.get('args')
            uid = args[0] if isinstance(args, list) and args and isinstance(args[0], int) else None
            if uid is not None:
                self.call_ids[(label, json.dumps(pkt.get('id')))] = uid
            sc = self.scripts.get(uid)
            extra = sc.get('tamper_call') if sc else None
        else:
            src, dst = label.split('>')
            uid = self.call_ids.get(('%s>%s' % (dst, src), json.dumps(pkt.get('id'))))
            sc = self.scripts.get(uid)
            extra = sc.get('tamper_value') if sc else None
        if not extra or not isinstance(pkt.get('meta'), dict):
            return data
        pkt['meta'].update(extra)
        self.tampered += 1
        return json.dumps(pkt).replace('~', '\\u007e').encode('utf-8') + DELIM

    def inject(self, label, raw):
        self.injected = getattr(self, 'injected', {})
        self.injected[label] = self.injected.get(label, b'') + raw
        self.links[label].append(raw)

    def unrequested_answers(self):
        """Value packets written to a hostile peer H that answer no call H ever sent on that connection: [(label, id)].
        (A result belongs to the connection its call arrived on; a process may hold several connections.)"""
        out = []
        for label, pkt, _n in self.wire:
            if not label.endswith('>H') or not isinstance(pkt, dict) or 'name' in pkt or 'id' not in pkt:
                continue
            sent = getattr(self, 'injected', {}).get('H>' + label[:-2], b'')
            if b'\\' in sent:
                continue        # escapes can spell anything: no verdict
            # the node protocol also takes a delimiter-less prefix that parses as JSON for a packet, so "what H sent" is
            # read generously: any "id": <value> occurring in its bytes counts as a call id H used
            want = json.dumps(pkt['id'], sort_keys=True)
            pat = rb'"id"\s*:\s*' + re.escape(want.encode('utf-8')).replace(rb'\ ', rb'\s*')
            if not re.search(pat, sent):
                out.append((label, pkt['id']))
        return out

    def pump(self, sizes, burst, max_rounds=6000, idle_rounds=8):
        """Tick everybody, move bytes; until nothing moves for ``idle_rounds`` rounds. Returns False if the bound hit."""
        idle = 0
        k = 0
        for _ in range(max_rounds):
            self.settle_all(2)
            moved = self.collect()
            for link in self.links.values():
                n = 0
                while link.pending and (burst == 0 or n < burst):
                    size = max(1, min(BUFSIZE, sizes[k % len(sizes)]))
                    k += 1
                    # keep the number of read events of one case bounded: long streams are not cut bytewise
                    if len(link.pending) > 1500 and size < 97:
                        size = size * 97
                    chunk, link.pending = link.pending[:size], link.pending[size:]
                    link.deliver(chunk)
                    link.delivered += len(chunk)
                    if link.pending and link.delivered not in link.bounds:
                        link.cut_inside += 1
                    link.chunks += 1
                    n += 1
                    moved = True
            busy = moved or any(len(p.root._queue) for p in self.procs.values() if not p.dead)
            idle = 0 if busy else idle + 1
            if idle >= idle_rounds:
                return True
        return False

    def probe_alive(self):
        """A local event must still be dispatched by every process."""
        bad = []
        for p in self.procs.values():
            if p.dead:
                bad.append(p.name)
                continue
            before = p.targets[0].probes
            p.root.fire(probe(1), 'c0')
            for _ in range(3):
                p.tick()
            if p.dead or p.targets[0].probes != before + 1:
                bad.append(p.name)
        return bad

    def close(self):
        # node.Server keeps its connection table in a class attribute: forget this case's sockets
        from circuits.node.server import Server
        tbl = getattr(Server, '_Server__protocols', None)
        if isinstance(tbl, dict):
            for s in self.socks + ([self.hsock] if self.hsock else []):
                tbl.pop(s, None)
        b = self.procs['B']
        tbl = getattr(b.node.server, '_Server__protocols', None)
        if isinstance(tbl, dict):
            tbl.clear()
        from circuits.node.node import Node as N
        tbl = getattr(N, '_Node__peers', None)
        if isinstance(tbl, dict):
            tbl.clear()


# ====================================================================================== atheris campaign (thorough tier)
def spec_from_bytes(data):
    """Fuzzer bytes -> C19 spec: byte 0 picks the victim and the place of the hostile bytes, byte 1 the read size,
    the rest is the hostile peer's raw stream (it may contain delimiters, i.e. several packets). One genuine
    remote call runs next to it, and the interpreter adds the benign follow-up on the hostile connection."""
    b0 = data[0] if len(data) > 0 else 0
    b1 = data[1] if len(data) > 1 else 0
    raw = bytes(data[2:]).decode('latin-1')
    size = [4096, 1, 2, 3, 5, 7, 16, 64][b1 % 8]
    ev = {'src': 'A0', 'to': 0, 'how': 'client', 'name': 'ping', 'args': ['x'], 'kwargs': {'k': 1}, 'channels': ['c0'],
          'flags': [False, False, False], 'meta': {}, 'kind': 'plain', 'slow': 1, 'tamper_call': {}, 'tamper_value': {}}
    return {'clients': 1, 'fw': {}, 'cuts': {'sizes': [size], 'burst': 0},
            'waves': [{'sends': [ev], 'forged': [{'victim': 'A0' if b0 & 1 else 'B', 'when': 'after' if b0 & 2 else 'before',
                                                'chase': bool(b0 & 4), 'raw': raw}]}]}


def seed_corpus():
    call = {'id': -1, 'name': 'ping', 'args': [-1, 'x'], 'kwargs': {'k': 1}, 'success': True, 'failure': False, 'notify': False,
            'channels': ['c0'], 'meta': {'x_meta': 1}}
    value = {'id': -1, 'errors': False, 'value': {'r': 1}, 'meta': {'x_meta': 1}}
    out = []
    for b0 in (0, 1, 4, 5):
        for pkt in (call, value, dict(call, meta={'cause': 1}), dict(call, channels=[['c0']]), dict(value, id=[1])):
            text = json.dumps(pkt).encode()
            out.append(bytes([b0, 0]) + text)
            out.append(bytes([b0, 3]) + text[:len(text) // 2])
            out.append(bytes([b0, 0]) + text + DELIM + text)
    return out


def main(argv):
    """python -m vlib.c19_helpers --out DIR [--corpus DIR] -runs=N -seed=S
    exit 0: campaign clean; exit 1: violation (DIR/C19-fuzz.json holds the spec)."""
    import argparse
    import os
    import sys
    ap = argparse.ArgumentParser()
    ap.add_argument('--out', required=True)
    ap.add_argument('--corpus')
    a, rest = ap.parse_known_args(argv)
    os.makedirs(a.out, exist_ok=True)
    work = os.path.join(a.out, 'corpus')
    os.makedirs(work, exist_ok=True)
    n = 0
    if a.corpus and os.path.isdir(a.corpus):
        for name in sorted(os.listdir(a.corpus)):
            with open(os.path.join(a.corpus, name), 'rb') as f, open(os.path.join(work, 'seed-%03d' % n), 'wb') as g:
                g.write(f.read())
            n += 1
    if not n:
        for s in seed_corpus():
            with open(os.path.join(work, 'seed-%03d' % n), 'wb') as g:
                g.write(s)
            n += 1

    import atheris
    # this file (run as __main__) already imported circuits.node: import the package again, instrumented; props.c19
    # and its own copy of this module (vlib.c19_helpers) are imported afterwards and bind to the instrumented one
    for m in [m for m in sys.modules if m == 'circuits.node' or m.startswith('circuits.node.')]:
        del sys.modules[m]
    with atheris.instrument_imports(include=['circuits.node.protocol', 'circuits.node.utils']):
        import circuits.node  # noqa
    from props import c19
    prop = c19.PROP
    prop.setup()

    def target(data):
        spec = spec_from_bytes(data)
        res = prop.execute(spec)
        if not res.ok:
            with open(os.path.join(a.out, 'C19-fuzz.json'), 'w') as f:
                json.dump({'property': 'C19', 'clause': res.clause, 'message': res.msg, 'spec': spec}, f)
            sys.stderr.write('C19-FUZZ-VIOLATION %s :: %s\n' % (res.clause, res.msg))
            sys.stderr.flush()
            os._exit(1)

    args = [sys.argv[0], work, '-artifact_prefix=' + a.out + '/', '-max_len=400', '-print_final_stats=1'] + rest
    atheris.Setup(args, target)
    atheris.Fuzz()


if __name__ == '__main__':
    import sys
    main(sys.argv[1:])
