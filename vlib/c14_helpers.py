"""C14 helpers: request grammar, mutation operators, response judge (independent of circuits).

Everything here is a pure function of its arguments: the generator (hypothesis) only draws small integers
and names; ``build`` / ``mutate`` turn them into bytes. ``judge_step`` is the per-read oracle.
"""
import re
import signal

import http.client as _hc

# the judge must accept every syntactically valid response: lift http.client's defensive size limits
_hc._MAXLINE = 1 << 26
_hc._MAXHEADERS = 1 << 20

# ---------------------------------------------------------------------------------------------- grammar
# NOTE: the lists below are APPEND-ONLY: specs (and committed replays of the generated kind) refer to entries by index.

METHODS = ['GET', 'GET', 'GET', 'POST', 'POST', 'PUT', 'DELETE']          # no HEAD: HEAD framing is C15's business
TARGETS = ['/', '/', '/echo', '/echo?x=1&y=two', '/echo/a/b', '/missing', '/a/b/c?q=%41', '/echo?1,2',
           'http://example.org/echo', '/boom', '/%7Eecho', '/echo;p=1', '/reflect', '/badhdr']
VERSIONS = ['HTTP/1.1', 'HTTP/1.1', 'HTTP/1.1', 'HTTP/1.0']
HEADERS = [
    'Accept: */*', 'User-Agent: c14/1.0 (x; y)', 'Cookie: sid=abc123; theme=dark', 'Connection: keep-alive',
    'Connection: close', 'X-Custom: some value', 'Accept-Language: en, de;q=0.5', 'X-Folded: one\r\n two\r\n\tthree',
    'Referer: http://example.org/a?b=c', 'Authorization: Basic dTpw', 'If-None-Match: "abc"', 'Accept-Encoding: gzip',
    # folded lines of headers whose value is echoed (Cookie -> Set-Cookie, X-Custom -> X-Echo) and long values (30-200 visible chars)
    'Cookie: sid=abc123;\r\n theme=dark', 'Cookie: a="b\r\n\tc"; d=e', 'X-Custom: folded\r\n  custom value',
    'User-Agent: Mozilla/5.0 (X11; Linux x86_64; rv:128.0) Gecko/20100101 Firefox/128.0',
    'X-Token: ' + '0123456789abcdef' * 4,
    'Accept: text/html,application/xhtml+xml,application/xml;q=0.9,\r\n image/avif,image/webp,*/*;q=0.8',
    'X-Long: ' + 'lorem ipsum dolor sit amet ' * 7,
]
# the Host line (optional grammar field 'hf'): plain, folded after the colon, folded inside the value
HOSTS = ['Host: example.org', 'Host:\r\n example.org', 'Host: example\r\n\t.org', 'Host: example.org\r\n ']
CTYPES = [None, None, 'text/plain', 'application/x-www-form-urlencoded', 'multipart/form-data; boundary=XyZ',
          'application/json', 'application/octet-stream']
MULTIPART = ('--XyZ\r\nContent-Disposition: form-data; name="a"\r\n\r\n1\r\n'
             '--XyZ\r\nContent-Disposition: form-data; name="f"; filename="f.txt"\r\nContent-Type: text/plain\r\n\r\nhello\r\n'
             '--XyZ--\r\n')
PAYLOADS = ['hello', 'a=1&b=two', '{"k": [1, 2]}', 'x' * 300, 'line1\r\nline2\r\n', '0123456789abcdef']
BODY_KINDS = ['none', 'none', 'clen', 'clen', 'chunked']
CHUNK_EXT = ['', '', ';ext=1', ';a;b="c d"']
TRAILERS = ['', '', 'X-Trailer: t\r\n']


def build(base):
    """Well-formed request bytes from grammar fields (or a raw latin-1 string)."""
    if isinstance(base, str):
        return base.encode('latin-1')
    method = METHODS[base['m'] % len(METHODS)]
    target = TARGETS[base['t'] % len(TARGETS)]
    version = VERSIONS[base['v'] % len(VERSIONS)]
    lines = ['%s %s %s' % (method, target, version), HOSTS[base.get('hf', 0) % len(HOSTS)]]
    for h in base['h'][:5]:
        lines.append(HEADERS[h % len(HEADERS)])
    kind = BODY_KINDS[base['b'] % len(BODY_KINDS)]
    ctype = CTYPES[base['c'] % len(CTYPES)]
    payload = PAYLOADS[base['p'] % len(PAYLOADS)]
    if ctype and ctype.startswith('multipart'):
        payload = MULTIPART
    elif ctype and ctype.endswith('urlencoded'):
        payload = 'a=1&b=two'
    body = ''
    if kind != 'none':
        if ctype:
            lines.append('Content-Type: ' + ctype)
        if kind == 'clen':
            lines.append('Content-Length: %d' % len(payload))
            body = payload
        else:
            lines.append('Transfer-Encoding: chunked')
            n = 1 + base['p'] % 3
            step = max(1, (len(payload) + n - 1) // n)
            ext = CHUNK_EXT[base['x'] % len(CHUNK_EXT)]
            for i in range(0, len(payload), step):
                piece = payload[i:i + step]
                body += '%x%s\r\n%s\r\n' % (len(piece), ext, piece)
            body += '0\r\n' + TRAILERS[base['x'] % len(TRAILERS)] + '\r\n'
    return ('\r\n'.join(lines) + '\r\n\r\n' + body).encode('latin-1')


# ---------------------------------------------------------------------------------------------- mutation operators

BAD_METHODS = [b'get', b'G\x00T', b'', b'GE T', b'A' * 30, b'GET\t', b'@#!', b'\xffGET', b'G\\x45T', b'(GET)', b'GET:', b'G\\ud800T', b'GET\\udfff', b'\\u20acGET']
BAD_VERSIONS = [b'HTTP/1.x', b'HTTP/2.0', b'HTTP/0.9', b'HTTP/11.1', b'HTTP/1', b'HTTQ/1.1', b'http/1.1', b'', b'HTTP/1.15',
                b'HTTP/-1.1', b'HTTP/1.1 x', b'HTTP/3.0', b'HTTP/1,1', b'HTTP/1.1\\r\\nX-Inj: y', b'HTTP/\\u0661.1', b'HTTP/1.1\x00',
                b'HTTP/9.9', b'HTTP/12.34', b'HTTP/0.1111', b'HTTP/0.9', b'HTTP/00.5', b'HTTP/1.000', b'HTTP/1.\\udc00', b'HTTP/\\ud800.1', b'HTTP/1.1\\udfff']
BIG = [1000, 8200, 70000]
BAD_TARGETS = [b'/#frag', b'noslash', b'*', b'/a b', b'http://[::1/', b'/%zz', b'/%', b'/../../etc/passwd', b'//', b'/\\x',
               b'/\\u12', b'/\\N{x}', b'/\\', b'/a\\r\\nb', b'/\\x00', b'http://a:xyz/', b'/\xff\xfe', b'/\xc3\xa9', b'?', b'/?a=b#c',
               b'/\\u20ac', b'/\\U00110000', b'/echo/../echo', b'/./echo', b'http://', b'://', b'/\\ud800', b'/echo?%ff=%fe',
               b'/\\x80', b'/%00', b'/echo?' + b'k=v&' * 40, b'/echo;\\x00p=1', b'/echo;p=\x00', b'/echo;a\\nb']
ESCAPES = [b'\\x', b'\\u12', b'\\N{x}', b'abc\\', b'\\U00110000', b'\\r\\nInjected: 1', b'\\x00', b'\\ud800', b'\\777', b'\\u20ac',
           b'\\N{BULLET}', b'\\xff', b'\\', b'\\U0001F600', b'\\x0', b'\\u']
BAD_HNAMES = [b'Bad Name', b'B(d', b'', b'\x01x', b'\xffx', b'X@Y', b'X\x7f', b' Lead', b'X\tY', b'"Q"', b'X\\x41', b'X\\udfffFoo', b'\\ud800', b'X\\u20ac', b'\xdfontent-Length', b'X\xdf', b'\xb5x', b'Tran\xdffer-Encoding']
BAD_HOSTS = [b'a:xyz', b'[::1]:80', b':80', b'a:', b'a:-1', b'a:99999999', b'', b'a b', b'\xff', b'a:80:90', b'a/../b', b'a:8\\x30',
             b'a:\\u0663', b'[::1', b'a:+80', b'a: 80', b'a:8_0', b'\\u20ac.org']
BAD_CL = [b'abc', b'-5', b'+5', b'5, 5', b'1e3', b'99999999999999999999', b'0x10', b'', b' ', b'5 5', b'\\u0663', b'5\\x00', b'05', b'-0',
          b'3.0', b'1_0', b'5;', b'\xb2', b'\\xb2', b'5\x00', b'0', b'1']
BAD_CHUNK = [b'ZZ', b'-1', b'', b' ', b'0x5', b'FFFFFFFFFFFFFFFFFF', b'5 5', b'+5', b'1_0', b'\\u0663', b';ext', b'5\x00', b'\xff', b'-0',
             b'00000000000000005', b'0_0']
BAD_TE = [b'gzip', b'chunked, gzip', b'CHUNKED', b'xchunked', b'chunked\x00', b'', b'identity', b' chunked ']
BAD_CE = [b'gzip', b'deflate', b'br', b'GZIP']
COOKIES = [b'a=b; \x01=\x02;;;=', b'=', b'a="unterminated', b'a=b\\r\\nSet-Cookie: x=y', b'\xff=\xfe', b'a=' + b'v' * 5000, b'expires=1; path=2',
           b'a=b; $Version=1', b'\\u20ac=1', b'a=\\u20ac', b'a="\\u20ac"', b'a="\\xe9\\xff"', b'a="\\U0001F600"; b=c', b'a="b\\r\\nX y"']
TOKENS = [b'\r\n', b'\r', b'\n', b' ', b':', b'\\', b'%', b'\t', b'\x7f', b'\x0b', b'\r\n\r\n', b'\x00\x00', b'\\x', b'#', b'\r\n ']
# Fragments for a folded continuation line / the tail of a long value. The parser decodes backslash escapes, so a CR, LF, NUL
# or a character outside latin-1 can arrive raw or as an escape (hex, octal, \\u, \\U, \\N{}); none of those can be copied
# into a response head. The last ones are legal (raw high bytes, DEL, VT) or undecodable escapes: the control group.
HOSTILE = [b'\x00', b'\\x00', b'\\r\\nX-Injected: 1', b'\\r\\n\\r\\nHTTP/1.1 200 OK\\r\\nContent-Length: 0\\r\\n\\r\\n',
           b'\\nX-Injected: 1', b'\\r', b'\\n', b'\\u20ac', b'\\u0100', b'\\U0001F600', b'\\ud800', b'\\N{BULLET}', b'\x00\x00',
           b'\\0', b'\\12', b'\\15\\12X: y', b'\\x0d\\x0aX: y',
           b'\xff\xfe', b'\\xff', b'\\xe9', b'\x7f', b'\x0b', b'\\x', b'\\', b'\\u12']
FOLD_WS = [b' ', b'\t', b'  ', b' \t ']
NONCANONICAL = [b'/echo/../echo', b'/./echo', b'//echo', b'/echo/./']      # answered with a redirect that copies Host into Location
LONG_LENS = [30, 33, 40, 48, 64, 70, 100, 140, 200]
LONG_UNITS = [b'Mozilla/5.0 (X11; Linux x86_64; rv:128.0) Gecko/20100101 Firefox/128.0 ', b'0123456789abcdef', b'a',
              b'lorem ipsum dolor ', b'dTpwYXNzd29yZA==,']
TLS = [
    b'\x16\x03\x01\x02\x00\x01\x00\x01\xfc\x03\x03' + bytes(range(40)),      # TLS 1.0 record, 1.2 hello
    b'\x16\x03\x03\x00\x31\x01\x00\x00\x2d\x03\x03' + b'\xaa' * 32,
    b'\x16\x03\x00\x00\x10\x01\x00\x00\x0c\x03\x00',                          # SSLv3
    b'\x16\x03\x04\x00\x05hello',
    b'\x80\x2e\x01\x00\x02\x00\x15\x00\x00\x00\x10' + b'\x07' * 36,          # SSLv2 client hello
    b'\x80\x80\x01\x03\x01',                                                  # short SSLv2-like
    b'\x16\x03',                                                              # cut TLS record header
    b'\x16',
    b'\x80\x0b',
    b'\x16\x03\x01\x00\x02\r\n\r\n',
]


def _head(data):
    """(request line, [header lines], rest after blank line) or None if there is no complete head."""
    i = data.find(b'\r\n\r\n')
    if i < 0:
        return None
    lines = data[:i].split(b'\r\n')
    return lines[0], lines[1:], data[i + 4:]


def _join(first, hlines, rest):
    return b'\r\n'.join([first] + hlines) + b'\r\n\r\n' + rest


def _pos(data, a):
    return a % (len(data) + 1)


def _reqline(data, f):
    i = data.find(b'\r\n')
    if i < 0:
        i = len(data)
    return f(data[:i]) + data[i:]


def _set_field(line, k, val):
    parts = line.split(b' ')
    if len(parts) < 3:
        return line + b' ' + val
    if k == 2:
        return b' '.join(parts[:-1] + [val])
    if k == 1:
        return b' '.join([parts[0], val] + parts[-1:])
    return b' '.join([val] + parts[1:])


def _add_header(data, line, a):
    h = _head(data)
    if h is None:
        return data + line + b'\r\n'
    first, hl, rest = h
    k = a % (len(hl) + 1)
    return _join(first, hl[:k] + [line] + hl[k:], rest)


def _set_header(data, name, value, a=0, replace=True):
    """Replace the value of header ``name`` (or add it)."""
    h = _head(data)
    if h is None:
        return data + name + b': ' + value + b'\r\n'
    first, hl, rest = h
    out, done = [], False
    for ln in hl:
        if replace and not done and ln.lower().startswith(name.lower() + b':'):
            out.append(name + b': ' + value)
            done = True
        else:
            out.append(ln)
    if not done:
        k = a % (len(out) + 1)
        out.insert(k, name + b': ' + value)
    return _join(first, out, rest)


def _drop_header(data, name):
    h = _head(data)
    if h is None:
        return data
    first, hl, rest = h
    return _join(first, [ln for ln in hl if not ln.lower().startswith(name.lower() + b':')], rest)


def _ensure_chunked(data):
    h = _head(data)
    if h is None:
        return data
    first, hl, rest = h
    if any(ln.lower().startswith(b'transfer-encoding:') for ln in hl):
        return data
    hl = [ln for ln in hl if not ln.lower().startswith(b'content-length:')]
    hl.append(b'Transfer-Encoding: chunked')
    first = _set_field(first, 0, b'POST') if first.split(b' ')[0] in (b'GET', b'DELETE') else first
    return _join(first, hl, b'5\r\nhello\r\n3\r\nabc\r\n0\r\n\r\n')


def _ensure_body(data):
    h = _head(data)
    if h is None:
        return data
    first, hl, rest = h
    if rest:
        return data
    if not any(ln.lower().startswith(b'content-length:') for ln in hl):
        hl.append(b'Content-Length: 5')
    return _join(first, hl, b'hello')


def m_rl_nospace(d, a, b):
    def f(line):
        idx = [i for i, c in enumerate(line) if c == 32]
        if not idx:
            return line
        i = idx[a % len(idx)]
        return line[:i] + line[i + 1:]
    return _reqline(d, f)


def m_rl_extra(d, a, b):
    def f(line):
        k = a % 3
        if k == 0:
            return line.replace(b' ', b'  ', 1 + b % 2)
        if k == 1:
            return _set_field(line, 1, b'/x y')
        return line + [b' extra', b' ', b'\t', b' HTTP/1.1'][b % 4]
    return _reqline(d, f)


def m_rl_method(d, a, b):
    return _reqline(d, lambda line: _set_field(line, 0, BAD_METHODS[a % len(BAD_METHODS)]))


def m_rl_version(d, a, b):
    return _reqline(d, lambda line: _set_field(line, 2, BAD_VERSIONS[a % len(BAD_VERSIONS)]))


def m_rl_target(d, a, b):
    return _reqline(d, lambda line: _set_field(line, 1, BAD_TARGETS[a % len(BAD_TARGETS)]))


def m_rl_long(d, a, b):
    n = BIG[a % len(BIG)]
    unit = [b'a', b'%41', b'a/', b'\\x41'][b % 4]
    if unit == b'a/':
        n //= 16        # url normalisation is quadratic in the number of segments: keep the case cheap
    return _reqline(d, lambda line: _set_field(line, 1, b'/' + unit * n))


def m_rl_only(d, a, b):
    i = d.find(b'\r\n')
    return d[:i + 2] if i >= 0 else d


def m_lf(d, a, b):
    k = a % 4
    if k == 0:
        return d.replace(b'\r\n', b'\n')
    if k == 1:
        return d.replace(b'\r\n', b'\n', 1)
    if k == 2:
        return d.replace(b'\r\n', b'\r', 1)
    return d.replace(b'\r\n', b'\n\r', 1 + b % 3)


def m_rl_empty(d, a, b):
    return [b'\r\n', b'\r\n\r\n', b' ', b'\n', b'\r\n \r\n'][a % 5] + d


def m_h_nocolon(d, a, b):
    return _add_header(d, [b'X-Foo', b'novalue', b'=', b'X-Foo bar', b'\x00'][b % 5], a)


def m_h_badname(d, a, b):
    return _add_header(d, BAD_HNAMES[b % len(BAD_HNAMES)] + b': v', a)


def m_h_big_value(d, a, b):
    return _add_header(d, b'X-Big: ' + [b'v', b'\\x41', b'a b ', b'\xe9'][b % 4] * BIG[a % len(BIG)], a)


def m_h_big_name(d, a, b):
    return _add_header(d, b'X' * BIG[a % len(BIG)] + b': v', b)


def m_h_many(d, a, b):
    n = [50, 300, 2000][a % 3]
    same = b % 2
    h = _head(d)
    if h is None:
        return d
    first, hl, rest = h
    extra = [(b'X-Same: %d' % i) if same else (b'X-H%d: %d' % (i, i)) for i in range(n)]
    return _join(first, hl + extra, rest)


def m_h_escape(d, a, b):
    e = ESCAPES[a % len(ESCAPES)]
    if b % 4 == 3:
        return _set_header(d, b'X-Custom', b'v' + e, b)
    if b % 3 == 0:
        return _add_header(d, b'X-Esc: ab' + e, b)
    if b % 3 == 1:
        return _add_header(d, b'X' + e + b': v', b)
    return _add_header(d, b'X-Esc: ' + e + b'cd', b)


def m_h_fold_first(d, a, b):
    h = _head(d)
    if h is None:
        return d
    first, hl, rest = h
    return _join(first, [[b' folded', b'\tfolded: x', b' '][a % 3]] + hl, rest)


def _hostile(a):
    """(fragment, rest of the selector)"""
    return HOSTILE[a % len(HOSTILE)], a // len(HOSTILE)


def m_h_fold_bad(d, a, b):
    """A hostile fragment on a folded continuation line (obs-fold: the line starts with SP/HTAB), preferably of a header whose
    value is echoed into the response (Cookie -> Set-Cookie, Host -> Location of a redirect, X-Custom -> X-Echo of /reflect)."""
    frag, a = _hostile(a)
    fold = b'\r\n' + FOLD_WS[a % len(FOLD_WS)]
    a //= len(FOLD_WS)
    cont = [frag, b'x' + frag + b'y', b'xy' + frag][a % 3]
    k, b = b % 7, b // 7
    if k == 0:
        return _set_header(d, b'Cookie', b'a="b' + fold + cont + b'c"', b)
    if k == 1:
        return _set_header(d, b'Cookie', b'sid=abc123;' + fold + b'x="' + cont + b'"' + (b'; y=z' if b % 2 else b''), b)
    if k == 2:
        d = _set_header(d, b'Host', [b'exa' + fold + cont + b'mple.org', b'example.org' + fold + cont, fold + cont + b'example.org'][b % 3])
        if (b // 3) % 4:
            d = _reqline(d, lambda line: _set_field(line, 1, NONCANONICAL[(b // 12) % len(NONCANONICAL)]))
        return d
    if k == 3:
        d = _set_header(d, b'X-Custom', b'v' + fold + cont, b)
        return _reqline(d, lambda line: _set_field(line, 1, b'/reflect')) if b % 4 else d
    if k == 4:
        # a second continuation line: the first one is harmless
        return _add_header(d, [b'Cookie: ', b'X-Fold: '][b % 2] + b'k=v;' + fold + b'w=1;' + fold + b'q="' + cont + b'"', b // 2)
    # k >= 5: continuation line appended to a header line that is there (k == 5: of an echoed header if there is one; also: to a
    # continuation line)
    h = _head(d)
    if h is None or not h[1]:
        return d + fold[2:] + cont + b'\r\n'
    first, hl, rest = h
    idx = [i for i, ln in enumerate(hl) if ln.lower().startswith((b'cookie:', b'host:', b'x-custom:'))] if k == 5 else []
    idx = idx or list(range(len(hl)))
    i = idx[b % len(idx)]
    while b % 2 and i + 1 < len(hl) and hl[i + 1][:1] in (b' ', b'\t'):
        i += 1      # after the last continuation line the header already has
    if k == 5:
        # make the echo likely: quoted cookie value / the controller that reflects X-Custom / a path that is redirected
        name = hl[idx[b % len(idx)]].lower()
        if name.startswith(b'cookie:'):
            cont = b'; q="' + cont + b'"'
        elif name.startswith(b'x-custom:'):
            first = _set_field(first, 1, b'/reflect')
        elif name.startswith(b'host:'):
            first = _set_field(first, 1, NONCANONICAL[(b // 2) % len(NONCANONICAL)])
    return _join(first, hl[:i + 1] + [fold[2:] + cont] + hl[i + 1:], rest)


def m_h_long_bad(d, a, b):
    """A long header value (30-200 visible characters) with a hostile fragment at or near its end."""
    frag, a = _hostile(a)
    n = LONG_LENS[a % len(LONG_LENS)]
    a //= len(LONG_LENS)
    tail = frag + [b'', b'x', b'xyz', b' z'][a % 4]
    unit = LONG_UNITS[(b // 6) % len(LONG_UNITS)]
    body = (unit * (n // len(unit) + 1))[:n].rstrip() + b'!'
    k = b % 6
    if k == 0:
        return _set_header(d, b'User-Agent', body + tail, b)
    if k == 1:
        return _add_header(d, b'X-Token: ' + body + tail, b)
    if k == 2:
        return _set_header(d, b'Cookie', b'sid=' + body.replace(b' ', b'+').replace(b';', b',') + tail, b)
    if k == 3:
        return _set_header(d, b'Referer', b'http://example.org/' + body.replace(b' ', b'/') + tail, b)
    if k == 4:
        d = _set_header(d, b'X-Custom', body + tail, b)
        return _reqline(d, lambda line: _set_field(line, 1, b'/reflect')) if b % 4 else d
    # the long part on the first line, the offending end on a folded line
    return _add_header(d, b'X-Long: ' + body + b'\r\n ' + body[:n // 2] + tail, b)


def m_h_host(d, a, b):
    k = b % 5
    if k == 0:
        return _drop_header(d, b'Host')
    if k == 1:
        return _add_header(d, b'Host: other.example', a)
    return _set_header(d, b'Host', BAD_HOSTS[a % len(BAD_HOSTS)])


def m_h_cookie(d, a, b):
    return _set_header(d, b'Cookie', COOKIES[a % len(COOKIES)], b)


def m_h_te(d, a, b):
    return _set_header(_ensure_body(d), b'Transfer-Encoding', BAD_TE[a % len(BAD_TE)], b)


def m_h_ce(d, a, b):
    return _set_header(_ensure_body(d), b'Content-Encoding', BAD_CE[a % len(BAD_CE)], b)


def m_h_ctype(d, a, b):
    vals = [b'multipart/form-data', b'multipart/form-data; boundary=', b'multipart/form-data; boundary="a b"',
            b'multipart/form-data; boundary=nomatch', b'application/x-www-form-urlencoded; charset=nope',
            b'application/x-www-form-urlencoded; charset=utf-16', b'/', b'multipart', b';;;', b'text/plain; charset="',
            b'application/x-www-form-urlencoded', b'multipart/form-data; boundary=' + b'b' * 300, b'multipart/mixed; boundary=XyZ']
    return _set_header(_ensure_body(d), b'Content-Type', vals[a % len(vals)], b)


def m_body_bytes(d, a, b):
    """Replace the (Content-Length) body by hostile bytes of the same framing."""
    bodies = [b'a=\xff', b'%zz=%', b'a=1&a=2&&&=', b'\x00\x01\x02', b'--XyZ\r\nbroken', b'--XyZ\r\nContent-Disposition: form-data\r\n\r\nx\r\n--XyZ--\r\n',
              b'a' * 3000, b'--XyZ--', b'a=%u20ac', b'\xef\xbb\xbfa=1', b'--XyZ\r\nContent-Disposition: form-data; name="a"\r\n\r\nno end']
    body = bodies[a % len(bodies)]
    h = _head(d)
    if h is None:
        return d
    first, hl, rest = h
    hl = [ln for ln in hl if not ln.lower().startswith((b'content-length:', b'transfer-encoding:'))]
    hl.append(b'Content-Length: %d' % len(body))
    if not any(ln.lower().startswith(b'content-type:') for ln in hl):
        hl.append([b'Content-Type: application/x-www-form-urlencoded', b'Content-Type: multipart/form-data; boundary=XyZ'][b % 2])
    if first.split(b' ')[0] in (b'GET', b'DELETE'):
        first = _set_field(first, 0, b'POST')
    return _join(first, hl, body)


def m_cl_value(d, a, b):
    return _set_header(_ensure_body(d) if b % 4 else d, b'Content-Length', BAD_CL[a % len(BAD_CL)], b)


def m_cl_dup(d, a, b):
    d = _ensure_body(d)
    return _add_header(d, b'Content-Length: ' + [b'3', b'7', b'0', b'abc', b'5'][a % 5], b)


def m_cl_te(d, a, b):
    d = _ensure_chunked(d)
    return _add_header(d, b'Content-Length: ' + [b'5', b'0', b'abc', b'100'][a % 4], b)


def m_cl_off(d, a, b):
    h = _head(d)
    if h is None:
        return d
    d = _ensure_body(d)
    first, hl, rest = _head(d)
    delta = [-1, 1, -3, 50, -len(rest)][a % 5]
    return _set_header(d, b'Content-Length', b'%d' % max(0, len(rest) + delta))


def _chunk_edit(d, f):
    d = _ensure_chunked(d)
    h = _head(d)
    if h is None:
        return d
    first, hl, rest = h
    return _join(first, hl, f(rest))


def m_ch_size(d, a, b):
    bad = BAD_CHUNK[a % len(BAD_CHUNK)]

    def f(rest):
        lines = rest.split(b'\r\n')
        k = (b % 2) * 2 if len(lines) > 3 else 0
        lines[k] = bad
        return b'\r\n'.join(lines)
    return _chunk_edit(d, f)


def _respell(tok, a):
    """The same number in a spelling that Python's int() takes and HTTP does not (sign, radix prefix, underscore, blanks inside,
    non-ASCII digits)."""
    k = a % 9
    if k == 0:
        return b'+' + tok
    if k == 1:
        return b'-' + tok
    if k == 2:
        return b'0x' + tok
    if k == 3:
        return (tok[:1] + b'_' + tok[1:]) if len(tok) > 1 else b'0_' + tok
    if k == 4:
        return tok + b'_'
    if k == 5:
        return tok[:1] + b' ' + tok[1:] if len(tok) > 1 else b'0 ' + tok
    if k == 6:
        return ''.join(chr(0x660 + int(chr(c))) if chr(c).isdigit() else chr(c) for c in tok).encode('utf-8')
    if k == 7:
        return b'0X' + tok
    return b'+0' + tok


def m_cl_respell(d, a, b):
    """Content-Length keeps its numeric value (the body still fits) but is spelt in a way only int() accepts."""
    d = _ensure_body(d) if b % 4 else d
    h = _head(d)
    if h is None:
        return d
    first, hl, rest = h
    cur = [ln for ln in hl if ln.lower().startswith(b'content-length:')]
    tok = cur[0].split(b':', 1)[1].strip() if cur else b'0'
    if not tok.isdigit():
        tok = b'%d' % len(rest)
    return _set_header(d, b'Content-Length', _respell(tok, a), b)


def m_ch_respell(d, a, b):
    """A chunk-size keeps its value but is spelt in a way only int(x, 16) accepts."""
    def f(rest):
        lines = rest.split(b'\r\n')
        k = (b % 2) * 2 if len(lines) > 3 else 0
        tok = lines[k].split(b';', 1)[0].strip()
        ext = lines[k][len(lines[k].split(b';', 1)[0]):]
        if not tok or any(c not in b'0123456789abcdefABCDEF' for c in tok):
            return rest
        lines[k] = _respell(tok, a if a % 9 != 6 else a + 1) + ext
        return b'\r\n'.join(lines)
    return _chunk_edit(d, f)


def m_ch_noterm(d, a, b):
    def f(rest):
        i = rest.find(b'\r\n')
        j = rest.find(b'\r\n', i + 2)
        if i < 0 or j < 0:
            return rest
        return rest[:j] + [b'XX', b'', b'\n', b'\r', b'X'][a % 5] + rest[j + 2:]
    return _chunk_edit(d, f)


def m_ch_nolast(d, a, b):
    def f(rest):
        i = rest.rfind(b'0\r\n')
        if i < 0:
            return rest
        return rest[:i] + [b'', b'0\r\n', b'0', b'0\r\nX', b'0\r\n\r'][a % 5]
    return _chunk_edit(d, f)


def m_nul(d, a, b):
    p = _pos(d, a)
    return d[:p] + b'\x00' * (1 + b % 2) + d[p:]


def m_high(d, a, b):
    p = _pos(d, a)
    return d[:p] + bytes([0x80 + b % 128]) + d[p:]


def m_high_first(d, a, b):
    return bytes([0x80 + b % 128]) * (1 + a % 3) + d


def m_flip(d, a, b):
    if not d:
        return d
    p = a % len(d)
    return d[:p] + bytes([b % 256]) + d[p + 1:]


def m_del(d, a, b):
    if not d:
        return d
    p = a % len(d)
    return d[:p] + d[p + 1 + b % 8:]


def m_dup(d, a, b):
    if not d:
        return d
    p = a % len(d)
    q = min(len(d), p + 1 + b % 40)
    return d[:q] + d[p:q] + d[q:]


def m_ins(d, a, b):
    p = _pos(d, a)
    return d[:p] + TOKENS[b % len(TOKENS)] + d[p:]


def m_esc_first(d, a, b):
    i = d.find(b'\r\n')
    if i < 0:
        i = len(d)
    p = b % (i + 1)
    return d[:p] + ESCAPES[a % len(ESCAPES)] + d[p:]


def m_tls(d, a, b):
    t = TLS[a % len(TLS)]
    k = b % 3
    if k == 0:
        return t
    if k == 1:
        return t + d
    return t + b'\r\n\r\n'


def m_trunc(d, a, b):
    return d[:a % (len(d) + 1)]


def m_trunc_head(d, a, b):
    i = d.find(b'\r\n\r\n')
    if i < 0:
        return d
    return d[:a % (i + 4)]


def m_twice(d, a, b):
    """The whole message twice in one byte string (pipelining is not supported, but it must not crash)."""
    return d + d[:_pos(d, a)] if b % 2 else d + d


OPS = {
    'rl_nospace': m_rl_nospace, 'rl_extra': m_rl_extra, 'rl_method': m_rl_method, 'rl_version': m_rl_version,
    'rl_target': m_rl_target, 'rl_long': m_rl_long, 'rl_only': m_rl_only, 'lf': m_lf, 'rl_empty': m_rl_empty,
    'h_nocolon': m_h_nocolon, 'h_badname': m_h_badname, 'h_big_value': m_h_big_value, 'h_big_name': m_h_big_name,
    'h_many': m_h_many, 'h_escape': m_h_escape, 'h_fold_first': m_h_fold_first, 'h_host': m_h_host, 'h_cookie': m_h_cookie,
    'h_fold_bad': m_h_fold_bad, 'h_long_bad': m_h_long_bad,
    'h_te': m_h_te, 'h_ce': m_h_ce, 'h_ctype': m_h_ctype, 'body_bytes': m_body_bytes,
    'cl_value': m_cl_value, 'cl_dup': m_cl_dup, 'cl_te': m_cl_te, 'cl_off': m_cl_off,
    'ch_size': m_ch_size, 'ch_noterm': m_ch_noterm, 'ch_nolast': m_ch_nolast, 'cl_respell': m_cl_respell, 'ch_respell': m_ch_respell,
    'nul': m_nul, 'high': m_high, 'high_first': m_high_first, 'flip': m_flip, 'del': m_del, 'dup': m_dup, 'ins': m_ins,
    'esc_first': m_esc_first, 'tls': m_tls, 'trunc': m_trunc, 'trunc_head': m_trunc_head, 'twice': m_twice,
}
OP_NAMES = sorted(OPS)
# families named by the quantifier -> operators (for the class counters)
FAMILY = {
    'request-line': ('rl_nospace', 'rl_extra', 'rl_method', 'rl_version', 'rl_target', 'rl_long', 'rl_only', 'lf', 'rl_empty'),
    'header': ('h_nocolon', 'h_badname', 'h_many', 'h_fold_first', 'h_host', 'h_cookie', 'h_te', 'h_ce', 'h_ctype', 'h_fold_bad',
               'h_long_bad'),
    'folded-hostile': ('h_fold_bad',),
    'long-value-hostile-end': ('h_long_bad',),
    'oversized': ('h_big_value', 'h_big_name', 'rl_long', 'h_many'),
    'content-length': ('cl_value', 'cl_dup', 'cl_te', 'cl_off', 'cl_respell'),
    'chunk': ('ch_size', 'ch_noterm', 'ch_nolast', 'ch_respell'),
    'escape': ('h_escape', 'esc_first'),
    'nul': ('nul',),
    'high-bytes': ('high', 'high_first'),
    'tls': ('tls',),
    'truncation': ('trunc', 'trunc_head', 'rl_only'),
    'generic-bytes': ('flip', 'del', 'dup', 'ins', 'twice', 'body_bytes'),
}
OP_FAMILY = {}
for _f, _ops in FAMILY.items():
    for _o in _ops:
        OP_FAMILY.setdefault(_o, []).append(_f)


def mutate(data, muts):
    for name, a, b in muts:
        data = OPS[name](data, a, b)
    return data


def split_reads(data, cuts, bytewise=False):
    if bytewise and 0 < len(data) <= 160:
        return [data[i:i + 1] for i in range(len(data))]
    if len(data) < 2:
        return [data] if data else []
    pos = sorted({1 + c % (len(data) - 1) for c in cuts})
    out, last = [], 0
    for p in pos:
        out.append(data[last:p])
        last = p
    out.append(data[last:])
    return [x for x in out if x]


# ---------------------------------------------------------------------------------------------- the judge

STATUS_LINE = re.compile(rb'^HTTP/(\d)\.(\d) (\d{3}) ([^\r\n\x00]*)$')
FIELD = re.compile(rb"^[!#$%&'*+\-.^_`|~0-9A-Za-z]+:[^\r\n\x00]*$")
REJECT_CODES = (400, 505)       # statuses the HTTP component issues itself when it refuses a message


def mentions_head(data):
    """Does any line of the input spell HEAD (case-insensitively, also through backslash escapes)?

    HEAD responses are framed differently (no body) and their handling is C15's subject: such inputs are skipped, so this
    may be as generous as it likes.
    """
    if b'HEAD' in data.upper():
        return True
    if b'\\' not in data:
        return False
    for line in re.split(rb'\r\n|\n|\r', data):
        if b'\\' in line:
            try:
                if 'HEAD' in line.decode('unicode_escape').upper():
                    return True
            except Exception:
                pass
    return False


def looks_like_tls(chunk):
    """Loosest reading of 'TLS/SSL handshake': a handshake record (0x16) or an SSLv2 length byte with the high bit set."""
    return bool(chunk) and (chunk[0] == 0x16 or chunk[0] >= 0x80)


def _judge_one(delta, method):
    """Judge the first response in ``delta``. Returns (clause, msg, info, rest)."""
    i = delta.find(b'\r\n\r\n')
    if i < 0:
        return 'invalid-response', 'output has no header terminator: %r' % delta[:120], None, b''
    lines = delta[:i].split(b'\r\n')
    m = STATUS_LINE.match(lines[0])
    if not m:
        return 'invalid-status-line', 'status line %r is not HTTP/d.d ddd reason' % lines[0][:120], None, b''
    code = int(m.group(3))
    if not 100 <= code <= 599:
        return 'invalid-status-line', 'status code %d out of range' % code, None, b''
    for ln in lines[1:]:
        if not FIELD.match(ln):
            return 'invalid-header-line', 'header line %r is not field-name ":" field-value' % ln[:120], None, b''
    names = [ln.split(b':', 1)[0].lower() for ln in lines[1:]]
    if names.count(b'content-length') > 1:
        return 'invalid-framing', 'more than one Content-Length in the response', None, b''
    for ln in lines[1:]:
        k, v = ln.split(b':', 1)
        if k.lower() == b'content-length' and not re.match(rb'^[ \t]*\d+[ \t]*$', v):
            return 'invalid-framing', 'Content-Length %r is not a number' % v, None, b''
    # http.client only speaks 1.x: the version digits were checked above, hand it a 1.x status line
    ver = b'HTTP/1.0' if (m.group(1), m.group(2)) == (b'1', b'0') else b'HTTP/1.1'
    norm = ver + delta[8:]
    from .httprig import decode_responses      # late: the atheris entry point must instrument circuits.web before it is imported
    decoded, rest = decode_responses(norm, [method])
    r = decoded[0] if decoded else None
    if not isinstance(r, dict):
        return 'undecodable-response', 'http.client cannot decode the output: %r; head %r' % (r, delta[:160]), None, b''
    if r['status'] != code:
        return 'undecodable-response', 'status disagreement %r vs %r' % (r['status'], code), r, b''
    return '', '', r, rest


def judge_output(delta, method='GET'):
    """Judge the bytes written in answer to ONE read event. Returns (clause, msg, [decoded responses]).

    clause '' = every byte belongs to a syntactically valid, consistently framed response and nothing follows a
    response that announces the end of the connection. How MANY responses one read may cause is decided by the caller.
    """
    out = []
    while delta:
        clause, msg, r, rest = _judge_one(delta, method)
        if clause:
            if out:
                if re.match(rb'^HTTP/\d', delta):
                    return clause, 'response no %d: %s' % (len(out) + 1, msg), out
                return 'trailing-bytes', '%d bytes after the end of the response: %r' % (len(delta), delta[:36]), out
            return clause, msg, out
        out.append(r)
        if rest and r['will_close']:
            what = 'a second response' if re.match(rb'^HTTP/\d', rest) else '%d more bytes' % len(rest)
            return 'more-than-one-response', '%s after a response that announces close (%d %s, then %r)' % (
                what, r['status'], r['reason'], rest[:36]), out
        delta = rest
    return '', '', out


_TWO_EOL = re.compile(rb'\r\n\r\n|\n\n|\r\r|\n\r\n|\r\n\n')


def two_messages_possible(buf):
    """Could ``buf`` (bytes received since the last answer) hold more than one message for ANY reasonable server?

    Generous: a blank line (any line-ending style) followed by at least one more byte.
    """
    m = _TWO_EOL.search(buf)
    return bool(m) and m.end() < len(buf)



# ---------------------------------------------------------------------------------------------- Content-Length that must be refused

_DIGITS = re.compile(rb'^[0-9]+$')
_ODD = re.compile(rb'\r(?!\n)|(?<!\r)\n|[\x00-\x08\x0b\x0c\x0e-\x1f\x7f]')


def _plain(block):
    """The reference readings only speak about header blocks made of CRLF-terminated lines without control characters
    (bare CR / LF and other controls are the business of other clauses and of the server's own line splitting)."""
    return not (b'\\' in block or _ODD.search(block) or block.startswith(b'\r\n'))


def bad_content_length(buf):
    """Reference reading of the FIRST header block in ``buf`` (bytes received since the last answer): does it carry a
    Content-Length that no HTTP implementation may accept (RFC 7230 3.3.2: 1*DIGIT; differing values = unrecoverable)?

    Deliberately narrow, so that it never condemns what a server may read differently:
    * only a complete header block (terminated by CRLF CRLF) that starts with a non-empty first line is read;
    * any backslash or NUL in the block -> no verdict (circuits documents backslash escapes in header lines);
    * a field is a line whose name (before the first ':') is exactly ``content-length`` ignoring case, without blanks
      around the name; its value includes continuation lines (obs-fold);
    * verdict only if some list element of some value is not 1*DIGIT after trimming blanks, or two elements differ.
    Returns a short description or None."""
    end = buf.find(b'\r\n\r\n')
    if end < 0:
        return None
    block = buf[:end]
    if not _plain(block):
        return None
    lines = block.split(b'\r\n')[1:]
    values = []
    cur = None
    for ln in lines:
        if ln[:1] in (b' ', b'\t'):
            if cur is not None:
                cur.append(ln)
            continue
        cur = None
        if b':' not in ln:
            return None        # not a header block any server must read our way
        name, val = ln.split(b':', 1)
        if name.lower() == b'content-length':
            cur = [val]
            values.append(cur)
    if not values:
        return None
    elements = []
    for v in values:
        for el in b' '.join(v).split(b','):
            elements.append(el.strip(b' \t'))
    for el in elements:
        if not _DIGITS.match(el):
            return 'Content-Length element %r is not 1*DIGIT' % el
    if len({int(el) for el in elements}) > 1:
        return 'conflicting Content-Length values %r' % elements
    return None


_HEX = re.compile(rb'^[0-9A-Fa-f]+$')


def bad_chunk_size(buf):
    """Reference reading of the first message in ``buf``: if it is unambiguously chunked (exactly one Transfer-Encoding
    field, value ``chunked``; no Content-Length; no backslash/NUL in the header block), walk its chunks; the first
    chunk-size that is not 1*HEXDIG (extensions after ';' and blanks around the number are not judged) makes the
    message one that no HTTP implementation may accept (RFC 7230 4.1).  Returns a short description or None."""
    end = buf.find(b'\r\n\r\n')
    if end < 0:
        return None
    block = buf[:end]
    if not _plain(block):
        return None
    te = []
    for ln in block.split(b'\r\n')[1:]:
        if ln[:1] in (b' ', b'\t') or b':' not in ln:
            return None        # folded or odd lines: not read here
        name, val = ln.split(b':', 1)
        if name.lower() == b'content-length':
            return None
        if name.lower() == b'transfer-encoding':
            te.append(val.strip(b' \t').lower())
    if te != [b'chunked']:
        return None
    pos = end + 4
    for _ in range(1000):
        eol = buf.find(b'\r\n', pos)
        if eol < 0:
            return None
        token = buf[pos:eol].split(b';', 1)[0].strip(b' \t')
        if _ODD.search(buf[pos:eol]):
            return None
        if not _HEX.match(token):
            return 'chunk-size %r is not 1*HEXDIG' % token
        n = int(token, 16)
        if n == 0:
            return None
        pos = eol + 2 + n
        if buf[pos:pos + 2] != b'\r\n':
            return None
        pos += 2
    return None


_TCHARS = re.compile(rb"^[!#$%&'*+\-.^_`|~0-9A-Za-z]+$")
_VERSION = re.compile(rb'^HTTP/[0-9]+\.[0-9]+$')


def bad_request_line(buf):
    """Reference reading of the request line of the first message in ``buf`` (header block complete, so an answer is due):
    only the plainest shape is read - three non-empty tokens separated by single blanks, no tab, backslash, NUL or byte
    >= 0x80 in the line.  Then RFC 7230 3.1.1 leaves no room: the method is a token and the version is
    ``HTTP/`` digits ``.`` digits (the RFC says one digit each; several are not judged).  Returns a description or None."""
    end = buf.find(b'\r\n\r\n')
    if end < 0:
        return None
    line = buf[:end].split(b'\r\n', 1)[0]
    if not line or b'\\' in line or b'\x00' in line or b'\t' in line or any(c >= 0x80 or c < 0x20 for c in line) or not _plain(buf[:end]):
        return None
    parts = line.split(b' ')
    if len(parts) != 3 or not all(parts):
        return None
    method, target, version = parts
    if not _TCHARS.match(method):
        return 'method %r is not a token' % method
    if not _VERSION.match(version):
        return 'HTTP-version %r is not HTTP/digits.digits' % version
    return None


def bad_header_line(buf):
    """Reference reading of the header lines of the first message in ``buf`` (block complete, no backslash or NUL in it):
    a line that is not a continuation (obs-fold) must be ``field-name ":" value`` with a non-empty token as name
    (RFC 7230 3.2; blanks between name and colon are not judged here).  Returns a description or None."""
    end = buf.find(b'\r\n\r\n')
    if end < 0:
        return None
    block = buf[:end]
    if not _plain(block):
        return None
    for i, ln in enumerate(block.split(b'\r\n')[1:]):
        if ln[:1] in (b' ', b'\t') and i > 0:
            continue
        if b':' not in ln:
            return 'header line %r has no colon' % ln[:40]
        name = ln.split(b':', 1)[0].rstrip(b' \t')
        if not _TCHARS.match(name):
            return 'header name %r is not a token' % name[:40]
    return None


def answer_due(buf):
    """Has the server received everything it can ever need to answer the first message in ``buf``?  True when the header
    block is complete (CRLF CRLF, first line not empty) and nothing in it - read raw and through the backslash escapes
    the statement's anchors name (unicode_escape) - spells a body framing header (Content-Length / Transfer-Encoding).
    Such a message has no body, well-formed or not: "waits for more data" is no longer one of the permitted outcomes."""
    end = buf.find(b'\r\n\r\n')
    if end < 0 or buf.startswith(b'\r\n') or end + 4 != len(buf):
        return False        # bytes behind the blank line: a further message in the same read (pipelining) is not judged
    block = buf[:end]
    if _ODD.search(block):
        return False
    texts = [block.decode('latin-1').lower()]
    if b'\\' in block:
        try:
            texts.append(block.decode('unicode_escape').lower())
        except Exception:
            pass
        for ln in block.split(b'\r\n'):
            try:
                texts.append(ln.decode('unicode_escape').lower())
            except Exception:
                pass
    for t in texts:
        if 'content-length' in t or 'transfer-encoding' in t:
            return False
    return True

# ---------------------------------------------------------------------------------------------- shape counters (evidence only)

_UNSENDABLE = re.compile('[\x00\r\n]|[^\x00-\xff]')
ECHOED = (b'cookie', b'host', b'x-custom')


def shape_classes(data):
    """Labels that MEASURE (from the bytes, not from the operator names) how often the generator produces the shapes
    'folded header', 'character that cannot be sent on a folded line', 'long value with such a character at its end'.
    Escapes are decoded with the codec the statement's anchors name (unicode_escape); evidence only, never a verdict."""
    if len(data) > 4096 or (b'\r\n ' not in data and b'\r\n\t' not in data and b'\\' not in data and b'\x00' not in data):
        return []
    h = _head(data)
    if h is None:
        return []
    logical = []
    for ln in h[1]:
        if ln[:1] in (b' ', b'\t') and logical:
            logical[-1][1].append(ln)
        elif b':' in ln:
            name, val = ln.split(b':', 1)
            logical.append((name.strip().lower(), [val]))
        else:
            logical.append((b'', [ln]))
    out = set()
    for name, parts in logical:
        dec = []
        for part in parts:
            try:
                dec.append(part.decode('unicode_escape'))
            except UnicodeDecodeError:
                dec.append(None)
        if len(parts) > 1:
            out.add('shape:folded-header')
            if name in ECHOED:
                out.add('shape:folded-echoed-header')
            if any(x is not None and _UNSENDABLE.search(x) for x in dec[1:]):
                out.add('shape:unsendable-char-on-folded-line')
                if name in ECHOED:
                    out.add('shape:unsendable-char-on-folded-line-of-echoed-header')
        if None not in dec:
            val = ''.join(dec).strip()
            m = _UNSENDABLE.search(val)
            if m and len(val[:m.start()].replace(' ', '').replace('\t', '')) >= 30:
                out.add('shape:unsendable-char-after-30+-visible-chars')
                if len(val) - m.start() <= 4:
                    out.add('shape:unsendable-char-within-last-4-of-30+-chars-value')
    return sorted(out)


# ---------------------------------------------------------------------------------------------- watchdog for one delivery

class LoopBlocked(BaseException):
    """Raised by the watchdog's signal handler inside whatever is executing (typically a C-level loop that polls for
    signals, e.g. a backtracking regular expression) to get control back from a handler that does not return."""


class Watchdog:
    """Bounds ONE delivery (fire + settle) that normally takes well under 5 ms.

    The verdict is based on CPU time of this process (ITIMER_VIRTUAL / SIGVTALRM), not on the wall clock: an overloaded
    or suspended machine cannot make correct code look blocked. A wall-clock timer (ITIMER_REAL / SIGALRM) of WALL_FACTOR
    times the limit is the backstop for a handler that sleeps instead of spinning. circuits turns any BaseException of a
    handler into an ``exception`` event and carries on, so the handler keeps firing (every second) until ``disarm``.
    """

    WALL_FACTOR = 6

    def __init__(self):
        self.installed = False
        self.wall = True
        self.armed = False
        self.fired = None      # None | 'cpu' | 'wall'

    def install(self, wall=True):
        """Once per process (also in every forked pool worker). Signal handlers can only be set in the main thread."""
        self.wall = wall
        try:
            signal.signal(signal.SIGVTALRM, self._on_timer)
            if wall:
                signal.signal(signal.SIGALRM, self._on_timer)
            self.installed = True
        except ValueError:
            self.installed = False
        self.armed = False
        self._clear()

    def _clear(self):
        if self.installed:
            signal.setitimer(signal.ITIMER_VIRTUAL, 0)
            if self.wall:
                signal.setitimer(signal.ITIMER_REAL, 0)

    def _on_timer(self, signum, frame):
        if not self.armed:
            return
        kind = 'cpu' if signum == signal.SIGVTALRM else 'wall'
        if self.fired is None:
            self.fired = kind
        signal.setitimer(signal.ITIMER_VIRTUAL if kind == 'cpu' else signal.ITIMER_REAL, 1.0)
        raise LoopBlocked(kind)

    def run(self, limit, fn):
        """fn() under the limit. True = it came back by itself; False = the watchdog had to interrupt it (self.fired)."""
        self.fired = None
        try:
            try:
                if self.installed:
                    self.armed = True
                    signal.setitimer(signal.ITIMER_VIRTUAL, limit)
                    if self.wall:
                        signal.setitimer(signal.ITIMER_REAL, limit * self.WALL_FACTOR)
                fn()
            finally:
                # always cancelled; a signal that arrives from here on is ignored (armed is False) or, if it got in before
                # this line, lands in the except clause below
                self.armed = False
                self._clear()
        except LoopBlocked:
            self.armed = False
            self._clear()
        return self.fired is None


# ---------------------------------------------------------------------------------------------- atheris campaign (thorough tier)
# python -m vlib.c14_helpers --out DIR --corpus /verif/corpus/C14 -runs=20000 -seed=1001
# The fuzzer's bytes ARE the bytes on the connection (the property quantifies over byte sequences); a 4-byte prefix picks
# read boundaries and the disconnect point. Same oracle as the generated search (props.c14.PROP.execute).
# exit 0: clean campaign; exit 1: violation (DIR/C14-fuzz.json holds the spec); other: harness error.

def spec_from_bytes(data):
    """total function bytes -> spec."""
    h = list(data[:4]) + [0] * (4 - len(data[:4]))
    c = h[0]
    ncuts = c & 3
    cuts = [h[1 + i] * 13 + i for i in range(ncuts)]
    return {'base': bytes(data[4:]).decode('latin-1'), 'muts': [], 'cuts': cuts, 'bytewise': False,
            'dc': -1 if c & 4 else (c >> 4) % 6, 'dcq': bool(c & 8), 'pre': bool(h[3] & 1), 'psplit': bool(h[3] & 2)}


def main(argv):
    import argparse
    import json
    import os
    import sys
    ap = argparse.ArgumentParser()
    ap.add_argument('--out', required=True)
    ap.add_argument('--corpus')
    a, rest = ap.parse_known_args(argv)
    os.makedirs(a.out, exist_ok=True)
    work = os.path.join(a.out, 'corpus')
    os.makedirs(work, exist_ok=True)
    n = 0
    if a.corpus and os.path.isdir(a.corpus):
        for name in sorted(os.listdir(a.corpus)):
            with open(os.path.join(a.corpus, name), 'rb') as f, open(os.path.join(work, 'seed-%03d' % n), 'wb') as g:
                g.write(f.read())
            n += 1

    import atheris
    with atheris.instrument_imports(include=['circuits.web.http', 'circuits.web.parsers.http', 'circuits.web.wrappers',
                                             'circuits.web.errors', 'circuits.web.url', 'circuits.web.headers',
                                             'circuits.web.processors', 'circuits.web.parsers.multipart',
                                             'circuits.web.parsers.querystring', 'circuits.web.dispatchers.dispatcher',
                                             'circuits.net.utils']):
        import circuits.web  # noqa
        import circuits.web.dispatchers.dispatcher  # noqa
        import circuits.web.processors  # noqa
    from props import c14
    prop = c14.PROP
    prop.watchdog_wall = False      # libFuzzer owns SIGALRM / ITIMER_REAL (-timeout); the CPU-time watchdog stays on
    prop.setup()

    def target(data):
        spec = spec_from_bytes(data)
        res = prop.execute(spec)
        if not res.ok:
            with open(os.path.join(a.out, 'C14-fuzz.json'), 'w') as f:
                json.dump({'property': 'C14', 'clause': res.clause, 'message': res.msg, 'spec': spec}, f)
            sys.stderr.write('C14-FUZZ-VIOLATION %s :: %s\n' % (res.clause, res.msg))
            sys.stderr.flush()
            os._exit(1)

    args = [sys.argv[0], work, '-artifact_prefix=' + a.out + '/', '-max_len=1500', '-print_final_stats=1', '-timeout=120',
            '-rss_limit_mb=0'] + rest
    atheris.Setup(args, target)
    atheris.Fuzz()


if __name__ == '__main__':
    import sys as _sys
    main(_sys.argv[1:])
