"""Deterministic cooperative scheduler for real threads (C03).

Managed threads pass a baton: exactly one runs at any time. Hand-over points are
  * every source line executed inside the traced files (sys.settrace 'line' events), and
  * the blocking doubles below (re-entrant lock, threading.Event, select/poll/epoll).
A schedule is a *preemption list* {global step index -> thread to switch to}; without preemption the running
thread continues until it blocks or ends, then the lowest-numbered runnable thread runs.
When nothing is runnable a timed waiter may be woken "by time-out" (virtual time); the ``on_timeout`` callback
lets the property veto that (a loop that needs a time-out to notice a queued foreign event is a violation).
"""
import os
import select as real_select
import sys
import threading


class StepBudget(BaseException):
    pass


class Sched:
    def __init__(self, preempt, files, max_steps=15000, on_timeout=None):
        self.preempt = dict(preempt)
        self.files = tuple(files)
        self.cv = threading.Condition()
        self.threads = {}        # name -> state dict (insertion order = priority)
        self.current = None
        self.steps = 0
        self.max_steps = max_steps
        self.trace = []          # (step, from, where, to) for every switch caused by a preemption
        self.violation = None
        self.on_timeout = on_timeout
        self.timeouts = 0
        self.big_frame = None

    # ------------------------------------------------------------------ threads
    def spawn(self, name, fn):
        st = {'name': name, 'state': 'runnable', 'why': None, 'exc': None}

        def body():
            with self.cv:
                while self.current != name:
                    self.cv.wait()
            sys.settrace(self._tracer)
            try:
                if self.big_frame is not None:
                    self.big_frame(lambda _: fn(), None)   # see vlib.runner._big_frame (performance only)
                else:
                    fn()
            except StepBudget:
                st['exc'] = 'step-budget'
            except BaseException as e:  # noqa
                st['exc'] = e
            finally:
                sys.settrace(None)
                with self.cv:
                    st['state'] = 'done'
                    self._handover(name)

        t = threading.Thread(target=body, name=name, daemon=True)
        st['thread'] = t
        self.threads[name] = st
        t.start()

    def me(self):
        return threading.current_thread().name

    def _tracer(self, frame, event, arg):
        if not frame.f_code.co_filename.endswith(self.files):
            return None
        if event == 'line':
            self.yield_point('%s:%d' % (os.path.basename(frame.f_code.co_filename), frame.f_lineno))
        return self._tracer

    def runnable(self):
        return [n for n, s in self.threads.items() if s['state'] == 'runnable']

    # ------------------------------------------------------------------ hand-over
    def yield_point(self, where):
        name = self.me()
        if name not in self.threads:
            return
        with self.cv:
            self.steps += 1
            if self.steps > self.max_steps or self.violation is not None:
                raise StepBudget()
            tgt = self.preempt.get(self.steps)
            if tgt is not None and tgt.startswith('*'):
                # '*' = the first other runnable thread, '*2' = the second one (if there is one)
                others = [n for n in self.runnable() if n != name]
                k = int(tgt[1:] or 1) - 1
                tgt = others[min(k, len(others) - 1)] if others else None
            if tgt is None or tgt == name or tgt not in self.threads or self.threads[tgt]['state'] != 'runnable':
                return
            self.trace.append((self.steps, name, where, tgt))
            self.current = tgt
            self.cv.notify_all()
            while self.current != name:
                self.cv.wait()

    def _handover(self, name):
        """Caller holds cv; the calling thread cannot continue (blocked or done)."""
        r = self.runnable()
        if not r:
            timed = [n for n, s in self.threads.items() if s['state'] == 'blocked' and s.get('timeout') is not None]
            if timed:
                n = timed[0]
                if self.on_timeout is not None and self.violation is None:
                    v = self.on_timeout(n, self.threads[n]['why'])
                    if v:
                        self.violation = v
                self.timeouts += 1
                self.threads[n]['state'] = 'runnable'
                self.threads[n]['timed_out'] = True
                r = [n]
            else:
                alive = [n for n, s in self.threads.items() if s['state'] != 'done']
                if alive and self.violation is None:
                    self.violation = ('stuck', {n: self.threads[n]['why'] for n in alive})
                self.current = '__main__'
                self.cv.notify_all()
                return
        self.current = r[0]
        self.cv.notify_all()

    def block(self, why, timeout=None, ready=lambda: False):
        """Block the calling thread until ready() or a virtual time-out. Returns True if ready."""
        name = self.me()
        st = self.threads[name]
        with self.cv:
            while True:
                if ready():
                    st['state'] = 'runnable'
                    return True
                if st.pop('timed_out', False):
                    st['state'] = 'runnable'
                    return False
                st['state'] = 'blocked'
                st['why'] = why
                st['timeout'] = timeout
                self._handover(name)
                while self.current != name:
                    self.cv.wait()
                st['state'] = 'runnable'

    def wake_all(self):
        with self.cv:
            for s in self.threads.values():
                if s['state'] == 'blocked':
                    s['state'] = 'runnable'

    def run(self, first, wall_cap=60):
        with self.cv:
            self.current = first
            self.cv.notify_all()
            while self.current != '__main__' and not all(s['state'] == 'done' for s in self.threads.values()):
                if not self.cv.wait(wall_cap):
                    self.violation = ('harness-timeout', None)
                    break


class DLock:
    """Re-entrant lock double (stands in for threading.RLock in circuits.core.manager)."""

    def __init__(self, sched):
        self.s = sched
        self.owner = None
        self.count = 0

    def acquire(self, blocking=True, timeout=-1):
        me = self.s.me()
        if me not in self.s.threads:
            return True
        self.s.yield_point('lock.acquire')
        if self.owner == me:
            self.count += 1
            return True
        self.s.block(('lock', id(self)), ready=lambda: self.owner is None)
        self.owner = me
        self.count = 1
        return True

    def release(self):
        me = self.s.me()
        if me not in self.s.threads:
            return
        self.count -= 1
        if self.count == 0:
            self.owner = None
            self.s.wake_all()
        self.s.yield_point('lock.release')

    __enter__ = acquire

    def __exit__(self, *a):
        self.release()


class DEvent:
    """threading.Event double (FallBackGenerator._continue)."""

    UNTIMED = 1000.0

    def __init__(self, sched):
        self.s = sched
        self.flag = False

    def set(self):
        self.flag = True
        self.s.wake_all()
        self.s.yield_point('event.set')

    def clear(self):
        self.flag = False

    def is_set(self):
        return self.flag

    def wait(self, timeout=None):
        if self.s.me() not in self.s.threads:
            return self.flag
        self.s.yield_point('event.wait')
        if timeout is not None and timeout <= 0:
            return self.flag          # not a wait at all
        t = None if (timeout is None or timeout >= self.UNTIMED) else timeout
        return self.s.block(('event.wait', t), timeout=t, ready=lambda: self.flag)


class SelDouble:
    """Stands in for the ``select`` module inside circuits.core.pollers: zero-time-out real call, then cooperative block."""

    def __init__(self, s):
        self.s = s
        for k in dir(real_select):
            if k.isupper():
                setattr(self, k, getattr(real_select, k))
        self.error = real_select.error
        self.opened = []

    def _block(self, probe, timeout, why):
        if self.s.me() not in self.s.threads:
            return probe()
        self.s.yield_point(why)
        if timeout is not None and timeout == 0:
            return probe()            # zero time-out: a poll, not a wait
        res = {}

        def ready():
            r = probe()
            res['r'] = r
            return any(r) if isinstance(r, tuple) else bool(r)

        untimed = timeout is None or timeout < 0
        ok = self.s.block((why, None if untimed else timeout), timeout=None if untimed else timeout, ready=ready)
        return res['r'] if ok else probe()

    def select(self, r, w, x, timeout=None):
        return self._block(lambda: real_select.select(r, w, x, 0), timeout, 'select')

    def poll(self):
        outer = self
        p = real_select.poll()

        class PD:
            def register(s, *a):
                return p.register(*a)

            def unregister(s, *a):
                return p.unregister(*a)

            def modify(s, *a):
                return p.modify(*a)

            def poll(s, timeout=None):
                return outer._block(lambda: p.poll(0), None if timeout is None else timeout / 1000.0, 'poll')
        return PD()

    def epoll(self):
        outer = self
        p = real_select.epoll()
        self.opened.append(p)

        class ED:
            def register(s, *a):
                return p.register(*a)

            def unregister(s, *a):
                return p.unregister(*a)

            def modify(s, *a):
                return p.modify(*a)

            def close(s):
                p.close()

            def fileno(s):
                return p.fileno()

            def poll(s, timeout=None):
                return outer._block(lambda: p.poll(0), None if (timeout is None or timeout < 0) else timeout, 'epoll')
        return ED()

    def close_all(self):
        for p in self.opened:
            try:
                p.close()
            except Exception:
                pass
