"""Shared runner: seeds, shards, replay tier, known findings, evidence, VIOLATION lines.

A property module (props/cNN.py) defines a subclass of :class:`Prop` called ``PROP``:

* ``strategy(tier)``          hypothesis strategy producing a JSON-able *spec*
* ``execute(spec)``           runs the spec against circuits; returns ``Result``
* ``enumerate(tier)``         optional: iterable of specs of a finite sub-domain (exhaustive part)
* ``exclude(spec, triggers)`` optional: rewrite a spec so that it does not contain the shape of an
                              open known finding (exclusion by construction); returns (spec, n_redirected)

Everything random is drawn by Hypothesis, seeded with ``VERIF_SEED*100000 + 100*round + shard`` (rounds of <=1000 examples).
Exit codes: 0 held, 1 VIOLATION, 2 harness error / inconclusive.
"""
import hashlib
import json
import multiprocessing
import os
import sys
import time
import traceback
from collections import Counter

VERIF = os.path.dirname(os.path.dirname(os.path.abspath(__file__)))
REPO = os.environ.get('VERIF_REPO', '/repo')
OUT = os.environ.get('VERIF_OUT', VERIF)  # where evidence and new replays are written


class Result:
    """Outcome of executing one spec.

    ok        property held on this case
    clause    short name of the oracle clause that failed (bucketing key)
    msg       human-readable message
    nontrivial  bool by the property's stated rule
    classes   iterable of class labels (for distribution counters)
    """

    __slots__ = ('ok', 'clause', 'msg', 'nontrivial', 'classes', 'inconclusive')

    def __init__(self, ok=True, clause='', msg='', nontrivial=False, classes=(), inconclusive=False):
        self.ok = ok
        self.clause = clause
        self.msg = msg
        self.nontrivial = nontrivial
        self.classes = tuple(classes)
        self.inconclusive = inconclusive


class Prop:
    id = 'C00'
    level = 'exploration'
    rule = ''
    assumptions = ()
    # (examples per shard, shards) per tier
    budget = {'quick': (300, 4), 'thorough': (3000, 16)}
    max_samples = 6
    shrink_lists = None   # {dict key: minimum length} of the lists the structural shrinker may delete from (None = any list)
    wall_cap = {'quick': 900, 'thorough': 6 * 3600}
    enum_procs = 16

    def strategy(self, tier):
        raise NotImplementedError

    def execute(self, spec):
        raise NotImplementedError

    def enumerate(self, tier):
        return ()

    def exclude(self, spec, triggers):
        return spec, 0

    def normalize(self, spec):
        """Re-establish spec invariants (ids …) after the structural shrinker deleted something."""
        return spec

    def setup(self):
        """Called once per process before any execute()."""


def spec_hash(spec):
    return hashlib.sha1(json.dumps(spec, sort_keys=True, default=repr).encode()).hexdigest()[:12]


def load_findings(pid):
    """known_findings.json is the committed list; findings.d/*.json are per-property fragments merged into it."""
    import glob
    out = []
    paths = [os.path.join(VERIF, 'known_findings.json')] + sorted(glob.glob(os.path.join(VERIF, 'findings.d', '*.json')))
    if os.environ.get('VERIF_OUT'):
        paths += sorted(glob.glob(os.path.join(os.environ['VERIF_OUT'], 'findings.d', '*.json')))
    seen = set()
    for path in paths:
        if not os.path.exists(path):
            continue
        with open(path) as f:
            data = json.load(f)
        for x in data.get('findings', []):
            if x.get('property') == pid and x.get('id') not in seen:
                seen.add(x.get('id'))
                out.append(x)
    return out


class _Acc:
    """Per-process accumulator."""

    def __init__(self):
        self.evaluations = 0
        self.nontrivial = set()
        self.classes = Counter()
        self.samples = []
        self.excluded = 0
        self.failure = None  # (spec, clause, msg)
        self.inconclusive = 0

    def record(self, spec, res, max_samples):
        self.evaluations += 1
        if res.inconclusive:
            self.inconclusive += 1
        for c in res.classes:
            self.classes[c] += 1
        if res.nontrivial:
            h = spec_hash(spec)
            if h not in self.nontrivial:
                self.nontrivial.add(h)
                if len(self.samples) < max_samples:
                    self.samples.append(spec)

    def merge(self, other):
        self.evaluations += other.evaluations
        self.nontrivial |= other.nontrivial
        self.classes.update(other.classes)
        self.excluded += other.excluded
        self.inconclusive += other.inconclusive
        for s in other.samples:
            if len(self.samples) < 8:
                self.samples.append(s)
        if self.failure is None and other.failure is not None:
            self.failure = other.failure


def _safe_execute(prop, spec):
    try:
        return prop.execute(spec)
    except Exception:  # harness bug: never report as violation
        raise HarnessError(traceback.format_exc())


class HarnessError(Exception):
    pass


def _list_paths(node, path=()):
    """Paths of all lists inside a JSON-like value."""
    if isinstance(node, list):
        yield path
        for i, x in enumerate(node):
            yield from _list_paths(x, path + (i,))
    elif isinstance(node, dict):
        for k in sorted(node):
            yield from _list_paths(node[k], path + (k,))


def _get(node, path):
    for k in path:
        node = node[k]
    return node


def structural_shrink(prop, spec, clause, cap_s=30):
    """Greedy deletion of list elements anywhere in the spec while the same clause keeps failing."""
    import copy
    t0 = time.time()
    best = spec
    progress = True
    while progress and time.time() - t0 < cap_s:
        progress = False
        paths = sorted(_list_paths(best), key=lambda p: -len(p))
        for path in paths:
            try:
                lst = _get(best, path)
            except (KeyError, IndexError, TypeError):
                continue
            minlen = 0
            if prop.shrink_lists is not None:
                key = path[-1] if path and isinstance(path[-1], str) else None
                if key not in prop.shrink_lists:
                    continue
                minlen = prop.shrink_lists[key]
            i = len(lst) - 1
            while i >= 0 and len(lst) > minlen and time.time() - t0 < cap_s:
                cand = copy.deepcopy(best)
                try:
                    del _get(cand, path)[i]
                    cand = prop.normalize(cand)
                    res = prop.execute(cand)
                except Exception:
                    res = None
                if res is not None and not res.ok and res.clause == clause:
                    best = cand
                    progress = True
                    lst = _get(best, path)
                    i = min(i, len(lst)) - 1
                else:
                    i -= 1
    return best


def _one_round(prop, tier, hseed, n_examples, triggers, acc, holder, phases, shrink_cap):
    import hypothesis
    from hypothesis import HealthCheck, given, settings

    st = settings(
        max_examples=n_examples,
        database=None,
        deadline=None,
        derandomize=False,
        report_multiple_bugs=False,
        phases=phases,
        suppress_health_check=[HealthCheck.too_slow, HealthCheck.data_too_large, HealthCheck.large_base_example],
        verbosity=hypothesis.Verbosity.quiet,
    )

    @hypothesis.seed(hseed)
    @settings(st)
    @given(prop.strategy(tier))
    def test(spec):
        # Shrinking is bounded by wall clock (this affects only how small the replay gets, never the verdict):
        # once the cap is over every input "fails" without being executed, which makes the shrinker converge at once.
        if 'failing' in holder and time.time() - holder['t0'] > shrink_cap:
            raise AssertionError('shrink-cap')
        if triggers:
            spec, n = prop.exclude(spec, triggers)
            acc.excluded += n
        res = _safe_execute(prop, spec)
        if 'failing' not in holder:
            acc.record(spec, res, prop.max_samples)
        if not res.ok:
            size = len(json.dumps(spec, default=repr))
            if 'failing' not in holder:
                holder['t0'] = time.time()
                holder['clause'] = res.clause
            if 'failing' not in holder or (size <= holder['size'] and res.clause == holder['clause']):
                holder['failing'] = (spec, res.clause, res.msg)
                holder['size'] = size
            raise AssertionError(res.clause)

    try:
        test()
    except HarnessError as e:
        return ('harness', str(e), None)
    except AssertionError:
        acc.failure = holder.get('failing')
        if acc.failure is not None:
            try:
                sp = structural_shrink(prop, acc.failure[0], acc.failure[1], 20 if tier == 'quick' else 60)
                r2 = prop.execute(sp)
                if not r2.ok:
                    acc.failure = (sp, r2.clause, r2.msg)
            except Exception:
                pass
    except hypothesis.errors.Flaky as e:
        f = holder.get('failing')
        if f:
            acc.failure = (f[0], f[1], f[2])
        else:
            return ('harness', 'Flaky without failing example: %s' % e, None)
    except BaseException as e:  # noqa
        if 'failing' in holder:
            acc.failure = holder['failing']
        else:
            return ('harness', traceback.format_exc(), None)
    return None


_BIG = None


def _big_frame():
    """CPython 3.11+ keeps Python frames in 'data stack chunks' that are mmap()ed when the call depth crosses a chunk
    boundary and munmap()ed when it drops back. Hypothesis' deeply recursive draws oscillate around such a boundary in
    pool workers, which costs a 3-4x slow-down in pure mmap/munmap churn (measured: 102k mmap calls for 240 examples).
    A first frame with ~66k (unused) local variables makes the interpreter allocate one 1 MiB chunk whose slack
    (~490 KiB) then holds every frame of the case. Pure performance device; no effect on results."""
    global _BIG
    if _BIG is None:
        n = 66036
        src = "def big(fn, arg):\n    if fn is None:\n" + "".join("        v%d = None\n" % i for i in range(n)) + "    return fn(arg)\n"
        ns = {}
        exec(compile(src, '<bigframe>', 'exec'), ns)
        _BIG = ns['big']
    return _BIG


def _shard_entry(args):
    return _big_frame()(_run_shard, args)


def _enum_entry(args):
    return _big_frame()(_run_enum_chunk, args)


def _freeze_heap():
    """Every case drops a few dozen cyclic components; without this the collector re-scans the whole inherited heap
    (hypothesis, circuits, the strategy objects) at every generation-2 collection of a forked worker."""
    import gc
    gc.collect()
    gc.freeze()


def _run_shard(args):
    modname, tier, seed, shard, n_examples, triggers = args
    sys.setrecursionlimit(10000)
    import importlib

    import hypothesis
    from hypothesis import HealthCheck, Phase, given, settings

    mod = importlib.import_module(modname)
    prop = mod.PROP
    prop.setup()
    _freeze_heap()
    acc = _Acc()
    holder = {}

    phases = [Phase.generate, Phase.shrink]
    shrink_cap = 8 if tier == 'quick' else 120
    t0 = time.time()
    # Rounds of at most ROUND examples, each a fresh Hypothesis run with its own derived seed: Hypothesis' record of
    # explored choices (and with it memory and generation time) grows with the number of examples of one run.
    ROUND = 1000
    done = 0
    rnd = 0
    while done < n_examples:
        chunk = min(ROUND, n_examples - done)
        out = _one_round(prop, tier, seed * 100000 + 100 * rnd + shard, chunk, triggers, acc, holder, phases, shrink_cap)
        if out is not None:
            return out
        if acc.failure is not None:
            break
        done += chunk
        rnd += 1
    return ('ok', acc, time.time() - t0)


def _run_enum_chunk(args):
    modname, specs = args
    import importlib

    mod = importlib.import_module(modname)
    prop = mod.PROP
    prop.setup()
    _freeze_heap()
    acc = _Acc()
    nfail = 0
    for spec in specs:
        try:
            res = prop.execute(spec)
        except Exception:
            return ('harness', traceback.format_exc())
        acc.record(spec, res, prop.max_samples)
        if not res.ok:
            nfail += 1
            if acc.failure is None:
                acc.failure = (spec, res.clause, res.msg)
            if nfail >= 3:
                break   # the verdict is settled; do not grind through a broken tree
    return ('ok', acc)


def write_replay(pid, spec, clause, msg):
    d = os.path.join(OUT, 'replays', 'new')
    os.makedirs(d, exist_ok=True)
    path = os.path.join(d, '%s-%s.json' % (pid, spec_hash(spec)))
    with open(path, 'w') as f:
        json.dump({'property': pid, 'clause': clause, 'message': msg, 'spec': spec}, f, indent=1, default=repr)
    return path


def write_evidence(prop, tier, seed, acc, wall, violations, extra=None, exhaustive=None):
    os.makedirs(os.path.join(OUT, 'evidence'), exist_ok=True)
    cov = {
        'evaluations': acc.evaluations,
        'distinct_nontrivial': len(acc.nontrivial),
        'rule': prop.rule,
        'samples': acc.samples[:8] or [],
        'classes': dict(acc.classes),
        'excluded_by_finding': acc.excluded,
        'inconclusive_cases': acc.inconclusive,
    }
    if exhaustive is not None:
        cov['exhaustive_subdomain'] = exhaustive
    if extra:
        cov.update(extra)
    ev = {
        'property_id': prop.id,
        'tier': tier,
        'seed': seed,
        'level': prop.level,
        'coverage': cov,
        'assumptions': list(prop.assumptions),
        'wall_s': round(wall, 2),
        'violations': violations,
    }
    with open(os.path.join(OUT, 'evidence', prop.id + '.json'), 'w') as f:
        json.dump(ev, f, indent=1, default=repr)


def main(modname, argv):
    import argparse
    import importlib

    ap = argparse.ArgumentParser()
    ap.add_argument('--tier', default=os.environ.get('VERIF_TIER', 'quick'))
    ap.add_argument('--replay')
    ap.add_argument('--examples', type=int)
    ap.add_argument('--shards', type=int)
    a = ap.parse_args(argv)
    tier = a.tier if a.tier in ('quick', 'thorough') else 'quick'
    seed = int(os.environ.get('VERIF_SEED', '1') or 1)

    import circuits

    if not os.path.realpath(circuits.__file__).startswith(os.path.realpath(REPO) + os.sep):
        print('harness error: circuits imported from %s, not %s' % (circuits.__file__, REPO))
        return 2

    mod = importlib.import_module(modname)
    prop = mod.PROP
    prop.setup()
    pid = prop.id

    # ---- single replay
    if a.replay:
        with open(a.replay) as f:
            data = json.load(f)
        spec = data['spec'] if isinstance(data, dict) and 'spec' in data else data
        res = prop.execute(spec)
        if res.ok:
            print('replay holds: property=%s %s' % (pid, a.replay))
            return 0
        print('replay fails: clause=%s %s' % (res.clause, res.msg))
        print('VIOLATION property=%s replay=%s' % (pid, a.replay))
        return 1

    t0 = time.time()
    total = _Acc()
    violations = []  # (spec, clause, msg)
    findings = load_findings(pid)
    triggers = []

    # ---- replay tier: committed minimal cases (regression inputs and open findings)
    rdir = os.path.join(VERIF, 'replays')
    committed = sorted(x for x in os.listdir(rdir) if x.startswith(pid + '-') and x.endswith('.json')) if os.path.isdir(rdir) else []
    open_by_replay = {os.path.basename(f['replay']): f for f in findings if f.get('status') == 'open' and f.get('replay')}
    n_replays = 0
    for name in committed:
        with open(os.path.join(rdir, name)) as f:
            data = json.load(f)
        spec = data['spec']
        try:
            res = prop.execute(spec)
        except Exception:
            print('harness error in replay %s:\n%s' % (name, traceback.format_exc()))
            return 2
        n_replays += 1
        total.record(spec, res, prop.max_samples)
        if not res.ok:
            fnd = open_by_replay.get(name)
            if fnd is not None:
                print('KNOWN-FINDING: property=%s %s [%s]' % (pid, fnd['what'], fnd['id']))
                if fnd.get('trigger'):
                    triggers.append(fnd['trigger'])
            else:
                violations.append((spec, res.clause, res.msg, os.path.join(rdir, name)))
    # open findings without replay file: trigger stays on
    for f in findings:
        if f.get('status') == 'open' and not f.get('replay'):
            print('KNOWN-FINDING: property=%s %s [%s]' % (pid, f['what'], f['id']))
            if f.get('trigger'):
                triggers.append(f['trigger'])

    ctx = multiprocessing.get_context('fork')
    _big_frame()   # compile once, before the workers are forked
    replay_failed = bool(violations)  # a committed regression input fails: report at once, skip the search

    # ---- enumerated finite sub-domain
    exhaustive = None
    specs = [] if replay_failed else list(prop.enumerate(tier))
    if specs:
        if triggers:
            specs2 = []
            for s in specs:
                s2, n = prop.exclude(s, triggers)
                total.excluded += n
                specs2.append(s2)
            specs = specs2
        nproc = min(prop.enum_procs, max(1, len(specs) // 8))
        chunks = [specs[i::nproc] for i in range(nproc)]
        with ctx.Pool(nproc) as pool:
            outs = pool.map(_enum_entry, [(modname, c) for c in chunks])
        for o in outs:
            if o[0] == 'harness':
                print('harness error in enumeration:\n' + o[1])
                return 2
            total.merge(o[1])
            if o[1].failure:
                violations.append(o[1].failure + (None,))
        exhaustive = {'cases': len(specs), 'complete': True}

    # ---- generated search
    n_examples, shards = prop.budget[tier]
    if a.examples:
        n_examples = a.examples
    if a.shards:
        shards = a.shards
    if n_examples > 0 and not replay_failed:
        jobs = [(modname, tier, seed, sh, n_examples, tuple(triggers)) for sh in range(shards)]
        if shards == 1:
            outs = [_shard_entry(jobs[0])]
        else:
            with ctx.Pool(min(shards, 16)) as pool:
                try:
                    outs = pool.map_async(_shard_entry, jobs).get(prop.wall_cap[tier])
                except multiprocessing.TimeoutError:
                    pool.terminate()
                    print('inconclusive: a shard did not finish within %d s (hang in the code under test or overloaded machine)' % prop.wall_cap[tier])
                    return 2
        for o in outs:
            if o[0] == 'harness':
                print('harness error:\n' + o[1])
                return 2
            total.merge(o[1])
            if o[1].failure:
                violations.append(tuple(o[1].failure) + (None,))

    # ---- report
    wall = time.time() - t0
    # bucket by clause: one replay per root-cause bucket
    seen = set()
    lines = []
    for spec, clause, msg, path in violations:
        if clause in seen:
            continue
        seen.add(clause)
        if path is None:
            path = write_replay(pid, spec, clause, msg)
        lines.append((clause, msg, path))
    extra = {'replays_run': n_replays, 'shards': shards, 'examples_per_shard': n_examples,
             'violation_buckets': [c for c, _, _ in lines]}
    write_evidence(prop, tier, seed, total, wall, len(lines), extra=extra, exhaustive=exhaustive)
    print('%s tier=%s seed=%d evaluations=%d distinct_nontrivial=%d excluded=%d wall=%.1fs' % (
        pid, tier, seed, total.evaluations, len(total.nontrivial), total.excluded, wall))
    if total.classes:
        print('classes: ' + ', '.join('%s=%d' % kv for kv in sorted(total.classes.items())))
    if lines:
        for clause, msg, path in lines:
            print('violated clause: %s :: %s' % (clause, str(msg)[:600]))
            print('VIOLATION property=%s replay=%s' % (pid, path))
        return 1
    if len(total.nontrivial) < 2:
        print('inconclusive: fewer than 2 non-trivial cases generated')
        return 2
    return 0
