"""C17: coverage-guided (atheris/libFuzzer) campaign over (timeline, cuts) with the C17 oracle inside the target.

The fuzzer's bytes are not fed to the codec directly (a conforming peer does not send random bytes): they are
decoded into a C17 *spec* (mode, ops, cuts - see props/c17.py) so that libFuzzer's coverage feedback from
``circuits/protocols/websocket.py`` steers frame shapes, fragmentation and cut positions. Each spec is judged by
``props.c17.PROP.execute`` (independent RFC 6455 codec as reference). A failing spec is written as a replay file
and the process exits 1.

    python -m vlib.c17_helpers --out DIR --corpus /verif/corpus/C17 -runs=20000 -seed=1001

exit 0: no violation in the campaign; exit 1: violation (``DIR/C17-fuzz.json`` holds the spec); other: harness error.
"""
import json
import os
import sys

KINDS = ['msg', 'msg', 'msg', 'msg', 'ping', 'pong', 'send', 'send', 'pclose', 'lclose', 'other', 'msg', 'ping', 'msg', 'send', 'msg']
IKINDS = ['ping', 'pong', 'send', 'ping', 'pclose', 'lclose', 'ping', 'pong']


def spec_from_bytes(data):
    """total function bytes -> spec (unused tail ignored; missing bytes read as 0)."""
    pos = [0]

    def u8():
        i = pos[0]
        pos[0] += 1
        return data[i] if i < len(data) else 0

    b = u8()
    spec = {'mode': 'server' if b & 1 else 'client', 'init': bool(b & 2), 'ops': [], 'cuts': []}
    nops = 1 + (b >> 2) % 8
    ncuts = 1 + (b >> 5) % 6
    for _ in range(nops):
        if pos[0] >= len(data) and spec['ops']:
            break
        k = u8()
        kind = KINDS[k & 15]
        key = [u8(), u8(), u8(), u8()] if k & 16 else [0, 0, 0, 0]
        if kind == 'msg':
            h = u8()
            li, seed = u8() % 20, u8()
            splits = [u8() * 1000 // 255 for _ in range(h & 3)]
            inter = [[u8() & 3, IKINDS[u8() & 7], u8() % 5, u8()] for _ in range((h >> 2) & 3) if splits]
            spec['ops'].append(['msg', 'tb'[(h >> 4) & 1], li, seed, splits, inter[:2], key])
        elif kind in ('ping', 'pong'):
            spec['ops'].append([kind, u8() % 5, u8(), key])
        elif kind == 'send':
            h = u8()
            spec['ops'].append(['send', 'tb'[h & 1], u8() % 20, u8()])
        elif kind == 'pclose':
            spec['ops'].append(['pclose', u8() % 4, key])
        elif kind == 'other':
            spec['ops'].append(['other', u8() % 10])
        else:
            spec['ops'].append(['lclose'])
    for _ in range(ncuts):
        h = u8()
        spec['cuts'].append([0 if h & 3 else 1, (h >> 2) & 15, u8() * 256 + u8()])
    return spec


def seed_corpus():
    """a few valid inputs so that the first generations already contain every op kind."""
    out = []
    out.append(bytes([0x01 | (3 << 2), 0x10, 0x05, 7, 3, 1, 2, 3, 4, 128, 0, 0, 1, 1, 0x04, 1, 9, 0x06, 0, 3, 5, 1, 0, 2]))
    out.append(bytes([0x02 | (4 << 2), 0x00, 0x16, 15, 9, 0, 0, 0, 0, 90, 200, 1, 0, 0, 2, 0x08, 1, 0x09, 0x07, 1, 2, 2]))
    out.append(bytes([0x00 | (2 << 2), 0x03, 0x00, 17, 1, 0x04, 4, 4, 5, 0, 7]))
    out.append(bytes([0x01 | (5 << 2), 0x0a, 3, 0x13, 0x2b, 13, 4, 1, 2, 3, 4, 10, 100, 200, 0, 4, 1, 1, 1, 0, 2, 2, 0x09, 0x00, 0, 0, 0]))
    return out


def main(argv):
    import argparse
    ap = argparse.ArgumentParser()
    ap.add_argument('--out', required=True)
    ap.add_argument('--corpus')
    a, rest = ap.parse_known_args(argv)
    os.makedirs(a.out, exist_ok=True)
    work = os.path.join(a.out, 'corpus')
    os.makedirs(work, exist_ok=True)
    n = 0
    if a.corpus and os.path.isdir(a.corpus):
        for name in sorted(os.listdir(a.corpus)):
            with open(os.path.join(a.corpus, name), 'rb') as f, open(os.path.join(work, 'seed-%03d' % n), 'wb') as g:
                g.write(f.read())
            n += 1
    if not n:
        for s in seed_corpus():
            with open(os.path.join(work, 'seed-%03d' % n), 'wb') as g:
                g.write(s)
            n += 1

    import atheris
    with atheris.instrument_imports(include=['circuits.protocols.websocket']):
        import circuits.protocols.websocket  # noqa
    from props import c17
    prop = c17.PROP
    prop.setup()
    prop.fast = True
    state = {'n': 0}

    def target(data):
        spec = spec_from_bytes(data)
        res = prop.execute(spec)
        state['n'] += 1
        if not res.ok:
            with open(os.path.join(a.out, 'C17-fuzz.json'), 'w') as f:
                json.dump({'property': 'C17', 'clause': res.clause, 'message': res.msg, 'spec': spec}, f)
            sys.stderr.write('C17-FUZZ-VIOLATION %s :: %s\n' % (res.clause, res.msg))
            sys.stderr.flush()
            os._exit(1)

    args = [sys.argv[0], work, '-artifact_prefix=' + a.out + '/', '-max_len=96', '-print_final_stats=1'] + rest
    atheris.Setup(args, target)
    atheris.Fuzz()


if __name__ == '__main__':
    main(sys.argv[1:])
