"""Deterministic drivers for a circuits Manager: stepped (tick) and real run() with a non-blocking idle stub."""
import contextlib
import io
import sys

import circuits.core.manager as _mgr
from circuits import BaseComponent, handler


class _NoAtexit:
    @staticmethod
    def register(*a, **k):
        return None

    @staticmethod
    def unregister(*a, **k):
        return None


def quiet_process():
    """Module-global doubles that keep run() from leaking into the process (no source hooks).

    * ``atexit.register(self.stop)`` in run() would keep every manager alive for ever.
    * signal handlers are only installed from the main thread; make that a no-op.
    """
    _mgr.atexit = _NoAtexit
    _mgr.set_signal_handler = lambda *a, **k: None
    install_nonblocking_idle()


class IdleBlocked(BaseException):
    """Raised by the idle-wait double when circuits asks for an untimed wait in a single-threaded harness."""


class NBEvent:
    """Double for ``threading.Event`` used by FallBackGenerator in single-threaded drivers.

    A timed wait returns at once (virtual time); an untimed wait (None or the 10000 s re-check) with
    nobody able to wake it is a deadlock: it is recorded in ``NBEvent.blocked`` and IdleBlocked is raised so
    that the harness regains control. The oracle of every single-threaded driver treats blocked > 0 as
    "the loop went to sleep for ever".
    """

    blocked = 0
    waits = []

    def __init__(self):
        self._flag = False

    def set(self):
        self._flag = True

    def clear(self):
        self._flag = False

    def is_set(self):
        return self._flag

    def wait(self, timeout=None):
        if self._flag:
            return True
        if timeout is None or timeout >= 1000:
            NBEvent.blocked += 1
            raise IdleBlocked('untimed idle wait with nothing to wake it')
        return False


def install_nonblocking_idle():
    import circuits.core.helpers as _h
    _h.Event = NBEvent


@contextlib.contextmanager
def captured_stderr():
    buf = io.StringIO()
    old = sys.stderr
    # circuits.core.manager and helpers hold their own reference to stderr
    import circuits.core.helpers as _h
    olds = (_mgr.stderr, _h.stderr)
    sys.stderr = _mgr.stderr = _h.stderr = buf
    try:
        yield buf
    finally:
        sys.stderr = old
        _mgr.stderr, _h.stderr = olds


def quiescent(root):
    return len(root._queue) == 0 and not root._tasks


def settle(root, max_ticks=200):
    """tick() a non-running manager until queue and task set are empty. Returns number of ticks, or -1."""
    n = 0
    while not quiescent(root):
        if n >= max_ticks:
            return -1
        root.tick()
        n += 1
    return n


class Idle(BaseComponent):
    """generate_events handler sitting after timers/pollers (prio 0/-9) and before the blocking fallback (-100).

    Counts loop iterations, never blocks, and stops the manager once it is quiescent
    (``extra()`` may veto) or after ``max_iter`` iterations (then ``self.exhausted`` is set).
    """

    channel = '*'

    def init(self, max_iter=400, extra=None, min_iter=0, on_iter=None):
        self.iterations = 0
        self.max_iter = max_iter
        self.extra = extra
        self.min_iter = min_iter
        self.exhausted = False
        self.on_iter = on_iter
        self.stopping = False

    @handler('generate_events', priority=-50)
    def _idle(self, event):
        event.stop()
        self.iterations += 1
        if self.on_iter is not None:
            self.on_iter(self.iterations)
        if self.stopping:
            return
        root = self.root
        if self.iterations >= self.max_iter:
            self.exhausted = True
            self.stopping = True
            root.stop()
            return
        if self.iterations >= self.min_iter and len(root._queue) == 0 and not root._tasks:
            if self.extra is None or self.extra():
                self.stopping = True
                root.stop()


def run_to_quiescence(root, **kw):
    """Execute the real run() in this thread; returns the Idle component (iterations, exhausted)."""
    idle = next((c for c in root.components if isinstance(c, Idle)), None)
    if idle is None:
        idle = Idle(**kw).register(root)
    else:
        idle.init(**kw)        # a second run() of the same manager: one idle stub, counters reset
    NBEvent.blocked = 0
    root.run()
    idle.blocked = NBEvent.blocked
    return idle
