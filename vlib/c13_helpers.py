"""C13 grammar: well-formed HTTP/1.0 and 1.1 requests / responses as JSON-able specs, their byte encoding,
the values a handler must see for the unambiguous subset, and the segmentations derived from a message.

Message spec (request):
  {"m": "POST", "abs": false, "segs": ["echo", "a"], "slash": false, "q": [["k", "v"]] | None, "v": "1.1",
   "h": [{"n": "X-A", "v": "text", "pre": " ", "post": "", "fold": [[" ", "more"]]}, ...],
   "hostname": "Host", "hostpos": 0, "framepos": 1, "conn": None|"close"|"keep-alive",
   "b": {"k": "none"|"clen"|"chunked", "data": "<latin-1>", "clfmt": 0..2, "enc": None|"gzip"|"deflate",
         "sizes": [..], "exts": [..], "hex": 0..2, "last": "0", "lastext": "", "trailers": [[n, v], ...],
         "tecase": 0..2}}
Message spec (response): {"v": "1.1", "code": 200, "reason": "OK", "h": [...], "framepos": 0, "conn": ..., "b": {... "k" may also be "close"}}

No backslashes are generated anywhere: the parser decodes lines with 'unicode_escape', which makes a backslash
an (un)acceptable-input question (C14), not a segmentation question.
"""
import gzip as _gzip
import re
import zlib

from hypothesis import strategies as st

METHODS = ['GET', 'GET', 'POST', 'POST', 'PUT', 'DELETE', 'PATCH', 'OPTIONS', 'HEAD']
SIMPLE_SEGS = ['a', 'b1', 'x-y', 'v_2', 'data.txt', '~u', 'Echo', 'INDEX', '0', 'echo', 'long-segment-name-0123456789']
ODD_SEGS = ['%41', 'a%20b', 'a;b', 'a,b', 'a=b', 'a+b', 'a:b', '@x', '%C3%A9', 'x%2Fy', "a'b", 'a!b', '(c)', '*']
QKEYS = ['a', 'k', 'x1', 'q', 'id']
SIMPLE_QVALS = ['1', 'v', 'abc', '', 'Zz9', 'x-y_z.w~']
ODD_QVALS = ['a%20b', 'a+b', '%26', 'a=b', 'a/b?c', '%C3%A9', 'a:b@c']
HNAMES = ['X-A', 'x-a', 'X-Long', 'Accept', 'User-Agent', 'Accept-Language', 'X-Requested-With', 'Cache-Control',
          'Referer', 'X-Forwarded-For', 'If-None-Match', 'x-lower', 'X-UPPER', 'Authorization', 'X-A.b_c~d', "X-!#$%&'*+^`|"]
RESP_HNAMES = ['Server', 'X-A', 'x-a', 'ETag', 'Cache-Control', 'Vary', 'X-Long', 'Set-Cookie', 'Last-Modified', 'Location', 'X-UPPER']
CTYPES = ['text/plain', 'application/octet-stream', 'application/json', 'text/plain; charset=utf-8']
HVALS = ['v', 'text/html,application/xml;q=0.9,*/*;q=0.8', 'Mozilla/5.0 (X11; Linux x86_64) Gecko/20100101',
         'en-US,en;q=0.5', 'no-cache', 'http://example.org/a/b?c=d', '"etag-1", W/"etag-2"', '10.0.0.1, 10.0.0.2',
         'Basic dXNlcjpwYXNz', 'a: b', 'x=1; y=2', '0', 'GET / HTTP/1.1', 'HTTP/1.1 200 OK', 'two  spaces', 'tab\there']
TNAMES = ['X-T', 'X-Checksum', 'Expires', 'x-t2']
EXTS = ['', '', ';a=1', ';name', ';q="x y"', ';a=1;b=2', ';Sig=0abc']
SNIPPETS = [b'\r\n', b'\r', b'\n', b'0\r\n\r\n', b'GET / HTTP/1.1\r\nHost: x\r\n\r\n', b'\r\n\r\n', b'5\r\nhello\r\n',
            b'HTTP/1.1 200 OK\r\n', b'Content-Length: 3\r\n', b'hello world', b'\x00\xff\x80', b'0\r\n', b'a' * 40]
CODES_BODY = [200, 200, 200, 201, 404, 500, 301, 206, 403]
CODES_NOBODY = [204, 304]

_SIMPLE_SEG_RE = re.compile(r'^[A-Za-z0-9_~-][A-Za-z0-9._~-]*$')


def L(b):
    return b.decode('latin-1')


def B(s):
    return s.encode('latin-1')


# --------------------------------------------------------------------------------------------- strategies
def _text():
    extra = st.text(alphabet='abcXYZ019 -_.;=,"()/:*', min_size=0, max_size=12).map(lambda s: s.strip())
    obs = st.sampled_from(['caf\xe9', '\xfc\xf1\xee', 'na\xefve \xa9'])
    return st.one_of(st.sampled_from(HVALS), st.sampled_from(HVALS), extra, obs)


def _ows():
    return st.sampled_from(['', ' ', ' ', ' ', '  ', '\t', ' \t'])


def _header(names):
    fold = st.lists(st.tuples(st.sampled_from([' ', '  ', '\t', ' \t ']), _text().filter(lambda s: s != '')).map(list),
                    min_size=1, max_size=2)
    return st.fixed_dictionaries({
        'n': st.sampled_from(names), 'v': _text(), 'pre': _ows(), 'post': st.sampled_from(['', '', '', ' ', '\t']),
        'fold': st.one_of(st.just([]), st.just([]), st.just([]), fold)})


def _data(max_parts):
    return st.lists(st.one_of(st.sampled_from(SNIPPETS), st.binary(min_size=1, max_size=8), st.binary(min_size=1, max_size=8)),
                    max_size=max_parts).map(lambda ps: L(b''.join(ps)))


def _body(kinds, max_parts):
    return st.fixed_dictionaries({
        'k': st.sampled_from(kinds),
        'data': _data(max_parts),
        'clfmt': st.sampled_from([0, 0, 0, 0, 1, 2]),
        'enc': st.sampled_from([None] * 12 + ['gzip', 'deflate']),
        'sizes': st.lists(st.integers(1, 20), max_size=5),
        'exts': st.lists(st.sampled_from(EXTS), max_size=5),
        'hex': st.sampled_from([0, 0, 1, 2]),
        'last': st.sampled_from(['0', '0', '0', '00', '000']),
        'lastext': st.sampled_from(EXTS),
        'trailers': st.lists(st.tuples(st.sampled_from(TNAMES), st.sampled_from(HVALS)).map(list), max_size=2),
        'tecase': st.sampled_from([0, 0, 0, 0, 0, 1, 2]),
    })


def request_strategy(big):
    segs = st.one_of(
        st.just([]),
        st.lists(st.sampled_from(SIMPLE_SEGS), max_size=3).map(lambda t: ['echo'] + t),
        st.lists(st.sampled_from(SIMPLE_SEGS), max_size=3).map(lambda t: ['echo'] + t),
        st.lists(st.sampled_from(SIMPLE_SEGS), min_size=1, max_size=3),
        st.lists(st.sampled_from(SIMPLE_SEGS + ODD_SEGS), min_size=1, max_size=4))
    q = st.one_of(
        st.none(), st.none(),
        st.lists(st.tuples(st.sampled_from(QKEYS), st.sampled_from(SIMPLE_QVALS)).map(list), max_size=3),
        st.lists(st.tuples(st.sampled_from(QKEYS), st.sampled_from(SIMPLE_QVALS + ODD_QVALS)).map(list), max_size=3))
    return st.fixed_dictionaries({
        'm': st.sampled_from(METHODS),
        'abs': st.sampled_from([False] * 9 + [True]),
        'segs': segs,
        'slash': st.sampled_from([False, False, False, True]),
        'q': q,
        'v': st.sampled_from(['1.1', '1.1', '1.1', '1.0']),
        'h': st.lists(_header(HNAMES), max_size=5 if not big else 8),
        'ctype': st.one_of(st.none(), st.sampled_from(CTYPES)),
        'cookie': st.sampled_from([None, None, None, 'sid=abc123', 'a=1; b=2']),
        'hostname': st.sampled_from(['Host', 'Host', 'Host', 'host', 'HOST']),
        'hostval': st.sampled_from(['a', 'example.org', 'localhost:8000', '127.0.0.1:8000']),
        'host10': st.booleans(),
        'hostpos': st.integers(0, 9),
        'framepos': st.integers(0, 9),
        'conn': st.sampled_from([None, None, None, 'close', 'keep-alive', 'Keep-Alive']),
        'b': _body(['none', 'none', 'clen', 'clen', 'chunked', 'chunked', 'chunked'], 4 if not big else 8),
    })


def response_strategy(big):
    return st.fixed_dictionaries({
        'v': st.sampled_from(['1.1', '1.1', '1.1', '1.0']),
        'code': st.sampled_from(CODES_BODY * 3 + CODES_NOBODY),
        'reason': st.sampled_from([None, None, None, 'Okay', 'fine by me', 'X']),
        'h': st.lists(_header(RESP_HNAMES), max_size=5 if not big else 8),
        'ctype': st.one_of(st.none(), st.sampled_from(CTYPES)),
        'framepos': st.integers(0, 9),
        'conn': st.sampled_from([None, None, None, 'close', 'keep-alive']),
        # 'none' on a 200 is an until-close response with an empty body; 204/304 always get 'none'
        'b': _body(['clen'] * 5 + ['chunked'] * 6 + ['close', 'none'], 4 if not big else 8),
    })


def multi_strategy():
    return st.lists(st.lists(st.integers(0, 9999), min_size=2, max_size=8), max_size=3)


# --------------------------------------------------------------------------------------------- encoding
def _norm_ws(s):
    return re.sub(r'[ \t]+', ' ', s).strip()


def _hline(h):
    out = B(h['n']) + b':' + B(h['pre']) + B(h['v']) + B(h['post'])
    for ws, text in h['fold']:
        out += b'\r\n' + B(ws) + B(text)
    return out + b'\r\n'


def _hexpect(h):
    return _norm_ws(' '.join([h['v']] + [t for _, t in h['fold']]))


def _encode_body(b, feats):
    """-> (framing header lines, body bytes on the wire, payload a handler must see, regions [(start, end, label)] rel. to body)"""
    kind = b['k']
    raw = B(b.get('data', ''))
    payload = raw
    hdrs = []
    if kind in ('none',):
        return [], b'', b'', []
    wire_payload = raw
    if b.get('enc') and kind in ('clen', 'chunked', 'close'):
        if b['enc'] == 'gzip':
            wire_payload = _gzip.compress(raw, 6, mtime=0)
        else:
            wire_payload = zlib.compress(raw, 6)
        hdrs.append(b'Content-Encoding: ' + B(b['enc']) + b'\r\n')
        feats.add('enc:' + b['enc'])
    regions = []
    if kind == 'clen':
        n = len(wire_payload)
        txt = {0: '%d', 1: '%03d', 2: '%d '}[b.get('clfmt', 0)] % n
        hdrs.append(b'Content-Length: ' + B(txt) + b'\r\n')
        if b.get('clfmt', 0):
            feats.add('clen-odd-format')
        feats.add('body:clen' if n else 'body:clen0')
        return hdrs, wire_payload, payload, [(0, n, 'body')]
    if kind == 'close':
        feats.add('body:until-close')
        return hdrs, wire_payload, payload, [(0, len(wire_payload), 'body')]
    # chunked
    te = {0: 'chunked', 1: 'Chunked', 2: 'CHUNKED'}[b.get('tecase', 0)]
    if b.get('tecase', 0):
        feats.add('te-case')
    hdrs.append(b'Transfer-Encoding: ' + B(te) + b'\r\n')
    feats.add('body:chunked')
    out = b''
    rest = wire_payload
    i = 0
    sizes = list(b.get('sizes', []))
    exts = list(b.get('exts', []))
    while rest:
        n = min(max(1, sizes[i]), len(rest)) if i < len(sizes) else len(rest)
        ext = exts[i] if i < len(exts) else ''
        hx = {0: '%x', 1: '%X', 2: '0%x'}[b.get('hex', 0)] % n
        line = B(hx) + B(ext) + b'\r\n'
        regions.append((len(out), len(out) + len(line), 'chunk-size'))
        out += line
        regions.append((len(out), len(out) + n, 'body'))
        out += rest[:n]
        regions.append((len(out), len(out) + 2, 'chunk-crlf'))
        out += b'\r\n'
        rest = rest[n:]
        if ext:
            feats.add('chunk-ext')
        i += 1
    if i > 1:
        feats.add('multi-chunk')
    start = len(out)
    out += B(b.get('last', '0')) + B(b.get('lastext', '')) + b'\r\n'
    if b.get('lastext'):
        feats.add('chunk-ext')
    for n_, v_ in b.get('trailers', []):
        out += B(n_) + b': ' + B(v_) + b'\r\n'
        feats.add('trailers')
    out += b'\r\n'
    regions.append((start, len(out), 'last-chunk'))
    return hdrs, out, payload, regions


def _assemble_headers(generic, framing, others, pos_other, pos_frame):
    lines = [(_hline(h), h) for h in generic]
    seq = [l for l, _ in lines]
    for i, o in enumerate(others):
        seq.insert((pos_other + i) % (len(seq) + 1), o)
    for i, f in enumerate(framing):
        seq.insert((pos_frame + i) % (len(seq) + 1), f)
    return b''.join(seq)


def _group_expect(pairs):
    """header (name, value) pairs in wire order -> sorted [(lower name, joined value)] as Headers() stores them."""
    d = {}
    order = []
    for n, v in pairs:
        k = n.lower()
        if k in d:
            d[k] = d[k] + ', ' + v
        else:
            d[k] = v
            order.append(k)
    return sorted((k, _norm_ws(d[k])) for k in order)


def build_request(r, last=True):
    """-> dict(bytes, expect, feats, regions, unambiguous)"""
    feats = set()
    if not last and r['m'] == 'HEAD':
        # C15's territory: a HEAD exchange leaves HTTP._clients[sock] behind and poisons whatever follows on the
        # connection (with or without segmentation), so HEAD is only generated as the last request of a connection
        r = dict(r, m='GET')
    segs = list(r.get('segs', []))
    path = '/' + '/'.join(segs)
    if r.get('slash') and segs:
        path += '/'
    target = path
    qs = ''
    if r.get('q') is not None:
        qs = '&'.join(k + '=' + v for k, v in r['q'])
        target += '?' + qs
        feats.add('query')
    hostval = r.get('hostval', 'a')
    if r.get('abs'):
        target = 'http://' + hostval + target
        feats.add('abs-form')
    ver = r.get('v', '1.1')
    line = B('%s %s HTTP/%s\r\n' % (r['m'], target, ver))
    b = dict(r.get('b') or {'k': 'none'})
    if ver == '1.0' and b['k'] == 'chunked':
        b['k'] = 'clen'          # HTTP/1.0 knows no chunked transfer coding
    framing, body, payload, bregions = _encode_body(b, feats)
    if b['k'] == 'none':
        feats.add('body:none')
    others = []
    pairs = []
    want_host = ver == '1.1' or r.get('host10', True)
    if want_host:
        others.append(B(r.get('hostname', 'Host')) + b': ' + B(hostval) + b'\r\n')
        pairs.append(('host', hostval))
    conn = r.get('conn')
    if not last:
        # a client that goes on using the connection never announced close; HTTP/1.0 needs keep-alive
        if conn == 'close':
            conn = None
        if ver == '1.0' and conn is None:
            conn = 'keep-alive'
    if conn:
        others.append(b'Connection: ' + B(conn) + b'\r\n')
        pairs.append(('connection', conn))
        feats.add('conn:' + conn.lower())
    if r.get('ctype'):
        others.append(b'Content-Type: ' + B(r['ctype']) + b'\r\n')
        pairs.append(('content-type', r['ctype']))
    if r.get('cookie'):
        others.append(b'Cookie: ' + B(r['cookie']) + b'\r\n')
        pairs.append(('cookie', r['cookie']))
    generic = list(r.get('h', []))
    hdr = _assemble_headers(generic, framing, others, r.get('hostpos', 0), r.get('framepos', 0))
    for f in framing:
        n, v = f[:-2].split(b':', 1)
        pairs.append((L(n), L(v).strip()))
    # expected header table must follow WIRE order for duplicates of generic names only (framing/others are unique)
    gpairs = [(h['n'], _hexpect(h)) for h in generic]
    expect_headers = _group_expect(gpairs + pairs)
    names = [h['n'].lower() for h in generic]
    if len(set(names)) != len(names):
        feats.add('dup-header')
    if any(h['fold'] for h in generic):
        feats.add('fold')
    if any(ord(c) > 127 for h in generic for c in h['v'] + ''.join(t for _, t in h['fold'])):
        feats.add('obs-text')
    if not generic and not others and not framing:
        feats.add('no-headers')
    data = line + hdr + b'\r\n' + body
    hs = len(line)
    he = len(line) + len(hdr) + 2
    regions = [(0, hs - 2, 'first-line'), (hs - 2, hs, 'first-line-crlf'), (hs, he, 'headers')]
    regions += [(he + s, he + e, lab) for s, e, lab in bregions]
    feats.add('ver:' + ver)
    feats.add('method:' + r['m'])
    simple_path = all(_SIMPLE_SEG_RE.match(s) and s not in ('.', '..') for s in segs)
    simple_q = r.get('q') is None or all(v in SIMPLE_QVALS for _, v in r['q'])
    unambiguous = simple_path and simple_q and (not b.get('enc') or b['k'] == 'none')
    prefix = b'E:' if segs and segs[0] == 'echo' else b'I:'
    expect = {
        'method': r['m'], 'path': path, 'qs': qs, 'protocol': tuple(int(x) for x in ver.split('.')),
        'headers': expect_headers, 'body': payload,
        'response_body': b'' if r['m'] == 'HEAD' else prefix + payload,
    }
    return {'bytes': data, 'expect': expect, 'feats': feats, 'regions': regions, 'unambiguous': bool(unambiguous)}


def build_response(r):
    feats = set()
    code = r.get('code', 200)
    from circuits.web.constants import HTTP_STATUS_CODES
    reason = r.get('reason') or HTTP_STATUS_CODES.get(code, 'OK').replace('"', ' ')
    ver = r.get('v', '1.1')
    line = B('HTTP/%s %d %s\r\n' % (ver, code, reason))
    b = dict(r.get('b') or {'k': 'none'})
    if code in CODES_NOBODY:
        b['k'] = 'none'
        feats.add('status:no-body')
    if ver == '1.0' and b['k'] == 'chunked':
        b['k'] = 'clen'
    framing, body, payload, bregions = _encode_body(b, feats)
    if b['k'] == 'none':
        feats.add('body:none')
    others = []
    pairs = []
    if r.get('conn'):
        others.append(b'Connection: ' + B(r['conn']) + b'\r\n')
        pairs.append(('connection', r['conn']))
        feats.add('conn:' + r['conn'].lower())
    if r.get('ctype'):
        others.append(b'Content-Type: ' + B(r['ctype']) + b'\r\n')
        pairs.append(('content-type', r['ctype']))
    generic = list(r.get('h', []))
    hdr = _assemble_headers(generic, framing, others, 0, r.get('framepos', 0))
    for f in framing:
        n, v = f[:-2].split(b':', 1)
        pairs.append((L(n), L(v).strip()))
    if any(h['fold'] for h in generic):
        feats.add('fold')
    if not generic and not others and not framing:
        feats.add('no-headers')
    data = line + hdr + b'\r\n' + body
    hs = len(line)
    he = len(line) + len(hdr) + 2
    regions = [(0, hs - 2, 'first-line'), (hs - 2, hs, 'first-line-crlf'), (hs, he, 'headers')]
    regions += [(he + s, he + e, lab) for s, e, lab in bregions]
    feats.add('ver:' + ver)
    names = [h['n'].lower() for h in generic]
    # Set-Cookie is kept as a list by Headers(); duplicates of it are outside the anchored subset
    unambiguous = b['k'] in ('clen', 'chunked') and not b.get('enc') and 'set-cookie' not in names
    expect = {'status': code, 'version': tuple(int(x) for x in ver.split('.')),
              'headers': _group_expect([(h['n'], _hexpect(h)) for h in generic] + pairs), 'body': payload}
    return {'bytes': data, 'expect': expect, 'feats': feats, 'regions': regions, 'unambiguous': bool(unambiguous),
            'self_delimiting': b['k'] in ('clen', 'chunked')}


# --------------------------------------------------------------------------------------------- segmentations
def split_at(data, cuts):
    cuts = sorted({c for c in cuts if 0 < c < len(data)})
    out = []
    prev = 0
    for c in cuts:
        out.append(data[prev:c])
        prev = c
    out.append(data[prev:])
    return out


def resolve_multi(ints, n):
    if n < 2:
        return []
    return sorted({1 + (v % (n - 1)) for v in ints})


def derived_cuts(data):
    """Deterministic multi-cut families: -> [(label, cuts)]"""
    n = len(data)
    fam = []
    crlf = [i + 1 for i in range(n - 1) if data[i:i + 2] == b'\r\n']
    fam.append(('all-cr|lf', crlf))
    fam.append(('after-every-crlf', [c + 1 for c in crlf]))
    fam.append(('around-every-crlf', sorted({c - 1 for c in crlf} | set(crlf) | {c + 1 for c in crlf})))
    fam.append(('2-byte', list(range(2, n, 2))))
    fam.append(('2-byte-odd', list(range(1, n, 2))))
    fam.append(('3-byte', list(range(3, n, 3))))
    fam.append(('7-byte', list(range(7, n, 7))))
    return [(l, [c for c in cs if 0 < c < n]) for l, cs in fam]


def region_of(regions, cut):
    """label of the region a cut (between byte cut-1 and byte cut) falls strictly inside of, else 'boundary'."""
    for s, e, lab in regions:
        if s < cut < e:
            return lab
    return 'boundary'
