"""Socket-less rig for circuits.web: FakeServer + HTTP + Dispatcher + observers, driven by read events.

Usage:
    rig = Rig(controllers=[MyController()], extra=[Static(...)])
    s = rig.sock(1)
    rig.feed(s, b'GET / HTTP/1.1\\r\\nHost: a\\r\\n\\r\\n')      # fires read(sock, data), settles
    rig.output(s)            -> bytes written to that socket so far (concatenated write events)
    rig.closed(s)            -> True once a close(sock) event was seen
    rig.wire.requests        -> list of captured request snapshots
    rig.disconnect(s)        -> fires disconnect(sock) the way the server component would
    decode_responses(raw, methods) -> independent decoding by http.client.HTTPResponse

Nothing blocks: the manager is not running, everything is stepped with tick().
"""
import http.client as hc
import io
import socket as _s

from circuits import BaseComponent, handler
from circuits.net.events import disconnect, read
from circuits.web.dispatchers import Dispatcher
from circuits.web.http import HTTP

from . import driver


class FakeSock(_s.socket):
    """Must be a real socket.socket instance: HTTP._on_exception only answers 500 for isinstance(x, socket)."""

    def __init__(self, n=0, peer='127.0.0.1'):
        super().__init__()
        self.n = n
        self.peer = peer

    def getpeername(self):
        return (self.peer, 40000 + self.n)

    def __repr__(self):
        return '<sock%d>' % self.n


class FakeServer(BaseComponent):
    channel = 'web'
    host = '127.0.0.1'
    port = 8000
    secure = False
    display_banner = False


class Wire(BaseComponent):
    channel = 'web'

    def init(self):
        self.out = {}        # sock -> [bytes]
        self.closed = []     # socks in order of close events
        self.requests = []   # snapshots
        self.exc = []        # (type, value) of exception events
        self.order = []      # ('write'|'close', sock) global order

    @handler('write', priority=-1)
    def _w(self, sock, data):
        self.out.setdefault(sock, []).append(bytes(data))
        self.order.append(('write', sock, len(data)))

    @handler('close', priority=-1)
    def _c(self, sock=None):
        self.closed.append(sock)
        self.order.append(('close', sock, 0))

    @handler('request', priority=100)
    def _r(self, event, req, res, *a):
        body = req.body
        try:
            pos = body.tell()
            data = body.read()
            body.seek(pos)
        except Exception:
            data = None
        self.requests.append({
            'sock': req.sock, 'method': req.method, 'path': req.path, 'qs': req.qs,
            'protocol': tuple(req.protocol), 'headers': sorted((k.lower(), v) for k, v in req.headers.items()),
            'body': data,
        })

    @handler('exception', channel='*', priority=100)
    def _x(self, *a, **k):
        self.exc.append(a[:2])


class Rig:
    def __init__(self, controllers=(), extra=(), with_dispatcher=True, http_kwargs=None):
        self.srv = FakeServer()
        self.http = HTTP(self.srv, **(http_kwargs or {})).register(self.srv)
        self.srv.http = self.http
        if with_dispatcher:
            self.dispatcher = Dispatcher().register(self.http)
        for c in extra:
            c.register(self.srv)
        for c in controllers:
            c.register(self.srv)
        self.wire = Wire().register(self.srv)
        self._socks = []
        self.stuck = False
        self.settle()

    def settle(self, max_ticks=400):
        n = driver.settle(self.srv, max_ticks)
        if n < 0:
            self.stuck = True
        return n

    def sock(self, n=0, peer='127.0.0.1'):
        s = FakeSock(n, peer)
        self._socks.append(s)
        return s

    def feed(self, sock, data):
        self.srv.fire(read(sock, data))
        return self.settle()

    def disconnect(self, sock):
        self.srv.fire(disconnect(sock))
        return self.settle()

    def output(self, sock):
        return b''.join(self.wire.out.get(sock, []))

    def closed(self, sock):
        return sock in self.wire.closed

    def tables(self, sock):
        """Per-connection state retained by the HTTP component for this socket."""
        return {'_buffers': sock in self.http._buffers, '_clients': sock in self.http._clients}

    def cleanup(self):
        for s in self._socks:
            try:
                s.close()
            except Exception:
                pass
        self._socks = []


class _NC(io.BytesIO):
    def close(self):
        pass


class _FS:
    def makefile(self, *a, **k):
        return io.BytesIO()


def decode_responses(raw, methods):
    """Decode ``raw`` as a sequence of responses to requests with the given methods using http.client.

    Returns (list of dict|('ERR', repr)|None, remaining bytes). A response delimited by connection close
    consumes everything to the end (will_close True).
    """
    f = _NC(raw)
    out = []
    for m in methods:
        if f.tell() >= len(raw):
            out.append(None)
            continue
        r = hc.HTTPResponse(_FS(), method=m)
        r.fp = f
        try:
            r.begin()
            body = r.read()
            out.append({'status': r.status, 'reason': r.reason, 'version': r.version, 'will_close': r.will_close,
                        'body': body, 'headers': [(k.lower(), v) for k, v in r.getheaders()],
                        'chunked': bool(r.chunked), 'length_header': r.getheader('Content-Length'),
                        'te': r.getheader('Transfer-Encoding')})
        except Exception as e:  # undecodable
            out.append(('ERR', repr(e)[:120]))
            break
    return out, raw[f.tell():]
