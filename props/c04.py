"""C04 — handler results, success/failure/exception feedback, error isolation.

Spec:
  {"driver": "tick"|"run", "events": [EV, ...]}
  EV = {"success": bool, "failure": bool, "notify": bool, "schan": null|"x",
        "handlers": [H, ...]}                       (1..4; slot i has priority 40-10*i)
  H  = {"kind": "ret"|"none"|"raise"|"gen"|"genraise", "val": token, "steps": [token|null, ...], "fire": [EV, ...]}
Tokens are JSON scalars (unique strings, or the falsy 0, "", false).
"""
from hypothesis import strategies as st

from circuits import BaseComponent, Event
from circuits.core.handlers import handler as H
from vlib import driver
from vlib.runner import Prop, Result

SLOTS = 4


class Boom(Exception):
    pass


class BoomBase(BaseException):
    """A failure that is not an Exception subclass (like asyncio.CancelledError or GeneratorExit); Boom-compatible."""


BOOMS = (Boom, BoomBase)


class XBoom(Exception):
    """Raised by the fragile `exception` handler (spec flag xfrag) while it reports another failure."""


class ev(Event):
    pass


class ev0(ev):
    """Same payload, but no component declares a handler for this name."""


def _walk(events, fn):
    for e in events:
        fn(e)
        for h in e['handlers']:
            _walk(h.get('fire', []), fn)


def _number(spec):
    c = [0]
    t = [0]

    def f(e):
        c[0] += 1
        e['id'] = c[0]
        for h in e['handlers']:
            if h['kind'] == 'ret' and h['val'] == 'T':
                t[0] += 1
                h['val'] = 'v%d' % t[0]
            st_ = []
            for s in h['steps']:
                if s == 'T':
                    t[0] += 1
                    s = 'v%d' % t[0]
                st_.append(s)
            h['steps'] = st_

    _walk(spec['events'], f)
    return spec


TOKEN = st.sampled_from(['T', 'T', 'T', 'T', 0, '', False])
STEP = st.sampled_from(['T', 'T', 'T', None, 0, '', False])


def _ev_strategy(depth):
    def handler_s(children):
        return st.fixed_dictionaries({
            'kind': st.sampled_from(['ret', 'ret', 'none', 'raise', 'gen', 'gen', 'genraise', 'retnested']),
            'val': TOKEN,
            'steps': st.lists(STEP, max_size=3),
            'base': st.sampled_from([False, False, False, True]),
            'fire': children,
        })

    def event_s(children):
        return st.fixed_dictionaries({
            'success': st.booleans(), 'failure': st.booleans(),
            'notify': st.sampled_from([False, False, True]),
            'schan': st.sampled_from([None, None, 'x']),
            'handlers': st.tuples(st.integers(0, 39), st.lists(handler_s(children), min_size=1, max_size=SLOTS)).map(lambda t: t[1] if t[0] else []),      # incl. an event nobody handles
        })

    s = event_s(st.just([]))
    for _ in range(depth):
        s = event_s(st.lists(s, max_size=2))
    return s


class C04(Prop):
    id = 'C04'
    rule = ('events with 1-4 handlers of distinct priority drawn from {return value, return None, raise, generator yielding '
            'k values/None, generator raising after k yields}, flags success/failure/notify/success_channels, handlers firing '
            'nested events (depth<=2), 1-3 root events in flight, optionally an `exception` handler that itself raises while reporting, under tick() and run(); non-trivial = some event combines '
            '>=2 different handler shapes including a raiser or a generator; distinct = distinct spec hash')
    assumptions = ('result order is compared with the order in which the harness handlers actually produced values (their own log)',
                   'handler results that are lists or Value objects are not generated (outside the quantifier / API ambiguity)',
                   'notify is a generated configuration only; nothing is asserted about *_value_changed')
    budget = {'quick': (2500, 4), 'thorough': (40000, 16)}

    shrink_lists = {'events': 1, 'handlers': 1, 'fire': 0, 'steps': 0}

    def setup(self):
        driver.quiet_process()

    def normalize(self, spec):
        return _number(spec)

    def strategy(self, tier):
        e = _ev_strategy(1 if tier == 'quick' else 2)
        return st.fixed_dictionaries({
            'driver': st.sampled_from(['tick', 'run']),
            'events': st.lists(e, min_size=1, max_size=3),
            'xfrag': st.sampled_from([False, False, True]),
            'retry': st.sampled_from([False, False, True]),
        }).map(_number)

    # ------------------------------------------------------------------
    def _run_real(self, spec):
        log = []   # tuples
        events = {}

        def make(especs):
            out = []
            for es in especs:
                e = (ev if es['handlers'] else ev0)(es)      # ev0: an event name nobody has a handler for
                e.success = es['success']
                e.failure = es['failure']
                e.notify = es['notify']
                if es['schan']:
                    e.success_channels = (es['schan'],)
                events[es['id']] = e
                out.append(e)
            return out

        class App(BaseComponent):
            def fireEvent(self, event, *channels, **kwargs):
                name = event.name
                if name.startswith('ev0_'):
                    name = 'ev_' + name[4:]
                if name in ('ev_success', 'ev_failure', 'ev_value_changed', 'ev_done', 'ev_complete'):
                    log.append(('fire:' + name, event.args[0].args[0]['id'] if isinstance(event.args[0], ev) else None))
                return super().fireEvent(event, *channels, **kwargs)

            fire = fireEvent

            @H('ev_success', 'ev0_success', channel='*')
            def _s(self, event, e, value):
                log.append(('success', e.args[0]['id'], event.channels))

            @H('ev_failure', 'ev0_failure', channel='*')
            def _f(self, event, e, err):
                log.append(('failure', e.args[0]['id'], err[1].args[0] if err[1].args else None))

            @H('exception', channel='*', priority=5)
            def _xfragile(self, etype, evalue, tb, handler=None, fevent=None):
                # a reporter that itself fails while reporting a generated failure (never for its own failure: no chain)
                if spec.get('xfrag') and isinstance(evalue, BOOMS):
                    raise XBoom(evalue.args[0] if evalue.args else None)

            @H('exception', channel='*')
            def _x(self, etype, evalue, tb, handler=None, fevent=None):
                if isinstance(evalue, XBoom):
                    log.append(('xexception', evalue.args[0]))
                    return
                eid = fevent.args[0]['id'] if isinstance(fevent, ev) else None
                log.append(('exception', eid, evalue.args[0] if isinstance(evalue, BOOMS) and evalue.args else repr(evalue)))

            @H('ev_value_changed', channel='*')
            def _v(self, *a, **k):
                log.append(('value_changed',))

        app = App()
        calm = [False]       # second round (spec flag retry): the same event objects are fired again, nothing raises any more

        def mk(slot):
            def gen(self, es, h):
                for s in h['steps']:
                    log.append(('yield', es['id'], slot, s))
                    yield s
                log.append(('end', es['id'], slot))
                if h['kind'] == 'genraise' and not calm[0]:
                    raise (BoomBase if h.get('base') else Boom)((es['id'], slot))

            @H('ev', priority=40 - 10 * slot)
            def f(self, event, es):
                if slot >= len(es['handlers']):
                    return None
                h = es['handlers'][slot]
                log.append(('run', es['id'], slot))
                nested = None
                for child in make(h.get('fire', [])):
                    v = self.fire(child)
                    nested = nested or v
                k = h['kind']
                if k == 'retnested':
                    # the handler hands on the (future) Value of a nested event it fired; without children it is a plain return
                    if nested is not None:
                        log.append(('retnested', es['id'], slot))
                        return nested
                    k = 'ret'
                if k == 'ret':
                    log.append(('ret', es['id'], slot, h['val']))
                    return h['val']
                if k == 'none':
                    return None
                if k == 'raise' and calm[0]:
                    return None
                if k == 'raise':
                    log.append(('raise', es['id'], slot))
                    raise (BoomBase if h.get('base') else Boom)((es['id'], slot))
                return gen(self, es, h)
            f.__name__ = 'slot%d' % slot
            return f

        for slot in range(SLOTS):
            app.addHandler(mk(slot))

        values = {}
        exhausted = False
        escaped = None
        with driver.captured_stderr() as err:
            try:
                roots = make(spec['events'])
                for e in roots:
                    values[e.args[0]['id']] = app.fire(e)
                if spec['driver'] == 'tick':
                    exhausted = driver.settle(app, 300) < 0
                else:
                    idle = driver.run_to_quiescence(app, max_iter=300)
                    exhausted = idle.exhausted or idle.blocked > 0
                self._ctx = (app, roots, calm)
            except BaseException as e:  # noqa: escaping the loop is itself a violation
                escaped = repr(e)
        return log, events, exhausted, escaped, err.getvalue()

    # ------------------------------------------------------------------
    def execute(self, spec):
        log, events, exhausted, escaped, errout = self._run_real(spec)
        drv = spec['driver']

        def bad(clause, msg):
            return Result(False, clause, '%s [driver=%s]' % (msg, drv))

        if escaped:
            return bad('exception-escaped', 'exception escaped the loop: %s' % escaped)
        if exhausted:
            return bad('no-quiescence', 'loop did not become quiescent')

        especs = {}
        _walk(spec['events'], lambda e: especs.__setitem__(e['id'], e))

        nontrivial = False
        classes = ['driver:' + drv]
        for eid, es in sorted(especs.items()):
            e = events.get(eid)
            hs = es['handlers']
            if e is None:
                return bad('handler-skipped', 'event %d was never fired: the handler that fires it did not run' % eid)
            ran = {l[2] for l in log if l[0] == 'run' and l[1] == eid}
            if ran != set(range(len(hs))):
                return bad('handler-skipped', 'event %d: handlers %r did not run (error isolation)' % (eid, sorted(set(range(len(hs))) - ran)))
            # generators must have finished
            for i, h in enumerate(hs):
                if h['kind'] in ('gen', 'genraise') and ('end', eid, i) not in log:
                    return bad('generator-not-finished', 'event %d handler %d: generator never ran to its end' % (eid, i))
            raisers = [i for i, h in enumerate(hs) if h['kind'] in ('raise', 'genraise')]
            # expected results in production order (the harness' own log order)
            expected = []
            for l in log:
                if l[1:2] != (eid,):
                    continue
                if l[0] == 'ret' and l[3] is not None:
                    expected.append(l[3])
                elif l[0] == 'raise':
                    expected.append(('ERR', l[2]))
                elif l[0] == 'yield' and l[3] is not None:
                    expected.append(l[3])
                elif l[0] == 'end' and hs[l[2]]['kind'] == 'genraise':
                    expected.append(('ERR', l[2]))
            v = e.value
            val = v.value
            hands_on_nested = any(l[0] == 'retnested' and l[1] == eid for l in log)
            if hands_on_nested:
                # what value/errors should be when a handler returns the Value of another event is not stated by the property
                # (Value.setValue merges flags of nested Values); only the feedback and isolation clauses are judged
                pass
            elif len(expected) == 0:
                got = None if val is None else ('UNEXPECTED', repr(val))
                if got is not None:
                    return bad('value', 'event %d: no results expected, value is %r' % (eid, val))
            else:
                if len(expected) == 1:
                    if isinstance(val, list):
                        return bad('value-shape', 'event %d: single result stored as list %r' % (eid, _short(val)))
                    got = [val]
                else:
                    if not isinstance(val, list):
                        return bad('value-shape', 'event %d: %d results expected, value is not a list: %r' % (eid, len(expected), _short(val)))
                    got = list(val)
                norm = []
                for g in got:
                    if isinstance(g, tuple) and len(g) == 3 and isinstance(g[1], BOOMS):
                        norm.append(('ERR', g[1].args[0][1]))
                    else:
                        norm.append(g)
                if len(norm) != len(expected) or any(type(a) is not type(b) or a != b for a, b in zip(norm, expected)):
                    return bad('value', 'event %d: value %r, produced %r' % (eid, _short(norm), _short(expected)))
            if not hands_on_nested and bool(v.errors) != bool(raisers):
                return bad('errors-flag', 'event %d: errors=%r but raisers=%r' % (eid, v.errors, raisers))
            nexc = [l for l in log if l[0] == 'exception' and l[1] == eid]
            if len(nexc) != len(raisers) or sorted(x[2][1] if isinstance(x[2], tuple) else -1 for x in nexc) != sorted(raisers):
                return bad('exception-count', 'event %d: %d exception events for raisers %r' % (eid, len(nexc), raisers))
            nfail = [l for l in log if l[0] == 'failure' and l[1] == eid]
            exp_fail = len(raisers) if es['failure'] else 0
            if len(nfail) != exp_fail:
                return bad('failure-count', 'event %d: %d failure events, expected %d' % (eid, len(nfail), exp_fail))
            nsucc = [k for k, l in enumerate(log) if l[0] == 'success' and l[1] == eid]
            fsucc = [k for k, l in enumerate(log) if l[0] == 'fire:ev_success' and l[1] == eid]
            exp_s = 1 if (es['success'] and not raisers) else 0
            if len(nsucc) != exp_s or len(fsucc) != exp_s:
                return bad('success-count', 'event %d: %d success events dispatched (%d fired), expected %d (requested=%s raisers=%r)' % (
                    eid, len(nsucc), len(fsucc), exp_s, es['success'], raisers))
            if exp_s:
                last = max([k for k, l in enumerate(log) if l[0] in ('run', 'ret', 'yield', 'end') and l[1] == eid], default=-1)
                if fsucc[0] < last:
                    return bad('success-early', 'event %d: success fired before the last handler step' % eid)
                if es['schan'] and log[nsucc[0]][2] != (es['schan'],):
                    return bad('success-channels', 'event %d: success delivered on %r not %r' % (eid, log[nsucc[0]][2], es['schan']))
            if hands_on_nested:
                classes.append('handler-returns-nested-Value')
            if not hs:
                classes.append('event-without-handlers')
            kinds = {h['kind'] for h in hs}
            if len(kinds) >= 2 and kinds & {'raise', 'gen', 'genraise'}:
                nontrivial = True
            if 'raise' in kinds and kinds & {'gen', 'genraise'}:
                classes.append('raiser+generator')
            if 'genraise' in kinds:
                classes.append('generator-raises')
            if any(h.get('base') and h['kind'] in ('raise', 'genraise') for h in hs):
                classes.append('raises-BaseException-subclass')
        if any(e['notify'] for e in especs.values()):
            classes.append('notify')
        if len(especs) > len(spec['events']):
            classes.append('nested')
        if spec.get('retry') and not errout.strip() and not [l for l in log if l[0] == 'exception' and l[1] is None and not spec.get('xfrag')]:
            # a retry, judged last (it changes the Value objects judged above): the very same root event objects are fired
            # once more after the causes of failure are gone
            classes.append('same-event-objects-fired-again')
            app, roots, calm = self._ctx
            mark = len(log)
            calm[0] = True
            with driver.captured_stderr():
                for e in roots:
                    app.fire(e)
                if driver.settle(app, 300) < 0:
                    return bad('no-quiescence', 'retry round did not settle')
            retry = log[mark:]
            for es in spec['events']:
                ns = [l for l in retry if l[0] == 'success' and l[1] == es['id']]
                nf = [l for l in retry if l[0] in ('failure', 'exception') and l[1] == es['id']]
                if nf:
                    return bad('failure-count', 'event %d fired again: nothing raised, yet %r' % (es['id'], nf[:2]))
                if len(ns) != (1 if es['success'] else 0):
                    return bad('success-count', 'event %d fired again (no handler raises this time): %d success events, success requested=%r' % (
                        es['id'], len(ns), es['success']))
        if spec.get('xfrag'):
            # the failing reporter is a failing handler like any other: one exception event per failure of its own,
            # and the recorder behind it still saw every generated failure (checked above per event)
            classes.append('exception-handler-that-raises')
            nx = sorted(map(repr, [l[1] for l in log if l[0] == 'xexception']))
            nb = sorted(map(repr, [l[2] for l in log if l[0] == 'exception' and l[1] is not None]))
            if nx != nb:
                return bad('exception-count', 'the fragile exception handler raised for %d failures, %d exception events report that: %r vs %r' % (
                    len(nb), len(nx), nb[:3], nx[:3]))
        # nothing else may have been reported as exception (e.g. errors inside the loop machinery)
        stray = [l for l in log if l[0] == 'exception' and l[1] is None]
        if stray:
            return bad('stray-exception', 'exception event not caused by a generated raiser: %r' % (stray[:2],))
        if errout.strip():
            return bad('stderr', 'unexpected error output: %s' % errout[-300:])
        return Result(True, nontrivial=nontrivial, classes=sorted(set(classes)))


def _short(x):
    r = repr(x)
    return r if len(r) < 200 else r[:200] + '…'


PROP = C04()
