"""C18 — line protocol is segmentation-invariant; IRC messages are exactly one line and round-trip.

Two kinds of spec (``part``):

  {"part": "line", "mode": "client"|"server", "nsock": n,
   "reads": [[sock_index, "<chunk bytes as latin-1 str>", settle_after(0|1)], ...]}

      Every read is fired as a ``read`` event (``read(data)`` in client mode, ``read(sock, data)`` in server mode
      with the documented ``getBuffer``/``updateBuffer`` callbacks backed by a ``defaultdict(bytes)`` exactly as in
      examples/ircd.py).  Oracle: at every settle point the ``line`` events seen so far for a socket are the
      reference split (independent, byte-wise: LF terminates, one CR before it belongs to the terminator) of the
      bytes that socket has received so far, the unterminated tail withheld.

  {"part": "irc", "ctor": "<name in irc.commands>"|"Message", "args": [str|None, ...],
   "command": str (Message only), "prefix": str|None (Message only), "bytes_args": 0|1, "via": "bytes"|"component"}

      Oracle: construction+serialisation either raises (rejected) or yields bytes that are exactly one
      CRLF-terminated line; on the well-formed domain it must not raise; on the unambiguous domain
      ``parsemsg(line)`` gives back prefix, command and arguments.  ``via: component`` serialises through
      ``IRC.request`` (captured ``write`` event) and parses through a second ``IRC`` component (``response`` event).
"""
import inspect
import itertools
from collections import defaultdict

from hypothesis import strategies as st

from circuits import BaseComponent, handler
from circuits.net.events import read
from circuits.protocols.irc import commands as irc_commands
from circuits.protocols.irc import message as irc_message
from circuits.protocols.irc.events import request, response
from circuits.protocols.irc.protocol import IRC
from circuits.protocols.irc.utils import parsemsg
from circuits.protocols.line import Line
from vlib import driver
from vlib.runner import Prop, Result

E_ACUTE = 'é'.encode('utf-8').decode('latin-1')  # the two UTF-8 bytes of é as a latin-1 str

# ---------------------------------------------------------------------------------------------- part (a): line


def ref_split(data):
    """Independent reference: (complete lines, unterminated tail) of a byte string; terminator is LF or CRLF."""
    lines = []
    cur = bytearray()
    for b in data:
        if b == 0x0A:
            if cur and cur[-1] == 0x0D:
                del cur[-1]
            lines.append(bytes(cur))
            cur = bytearray()
        else:
            cur.append(b)
    return lines, bytes(cur)


class Sock:
    """Stand-in for a client socket: Line only uses it as the key handed to the callbacks."""

    def __init__(self, i):
        self.i = i

    def __repr__(self):
        return '<sock %d>' % self.i


class LineTap(BaseComponent):
    channel = '*'

    def init(self):
        self.lines = []
        self.errors = []

    @handler('line')
    def _on_line(self, *args):
        self.lines.append(args)

    @handler('exception')
    def _on_exception(self, *args, **kwargs):
        self.errors.append(args[:2])


def build_reads(streams, cuts, order, ticks):
    """streams: list of latin-1 strs; cuts: list of sorted offset lists; order: ints; ticks: ints -> reads list."""
    chunks = []
    for s, cs in zip(streams, cuts):
        # cuts at 0 / len(s) make empty reads: wanted, but rarely (only from raw cut values >= 50)
        pos = sorted({c % (len(s) + 1) for c in cs if c >= 50 or 0 < c % (len(s) + 1) < len(s)}) if cs else []
        pieces = []
        last = 0
        for p in pos + [len(s)]:
            pieces.append(s[last:p])
            last = p
        # an empty piece is an empty read: keep at most the ones the cut list asked for (cut at 0 / at len)
        chunks.append(pieces)
    idx = [0] * len(streams)
    reads = []
    k = 0
    while True:
        live = [i for i in range(len(streams)) if idx[i] < len(chunks[i])]
        if not live:
            break
        pick = live[(order[k] if k < len(order) else k) % len(live)]
        t = ticks[k] if k < len(ticks) else 1
        reads.append([pick, chunks[pick][idx[pick]], 1 if t else 0])
        idx[pick] += 1
        k += 1
    return reads


def exec_line(spec):
    mode = spec['mode']
    reads = spec['reads']
    nsock = max([1] + [r[0] + 1 for r in reads]) if mode == 'server' else 1
    socks = [Sock(i) for i in range(nsock)]
    tap = LineTap()
    if mode == 'server':
        buffers = defaultdict(bytes)
        comp = Line(getBuffer=buffers.__getitem__, updateBuffer=buffers.__setitem__)
    else:
        comp = Line()
    comp.register(tap)
    streams = [b'' for _ in socks]
    classes = ['line:' + mode]
    seen = set()

    def judge(where):
        got = [[] for _ in socks]
        for args in tap.lines:
            if mode == 'server':
                if len(args) != 2 or not any(args[0] is s for s in socks) or not isinstance(args[1], bytes):
                    return Result(False, 'line-event-shape', 'server-mode line event carries %r (%s)' % (args, where))
                got[args[0].i].append(args[1])
            else:
                if len(args) != 1 or not isinstance(args[0], bytes):
                    return Result(False, 'line-event-shape', 'client-mode line event carries %r (%s)' % (args, where))
                got[0].append(args[0])
        for i in range(nsock):
            want, _tail = ref_split(streams[i])
            if got[i] != want:
                clause = 'line-sequence' if mode == 'client' else 'line-sequence-server'
                def short(x):
                    x = x if isinstance(x, (bytes, list)) else repr(x)
                    if isinstance(x, list):
                        x = [short(y) for y in x]
                        return x if len(x) <= 8 else x[:4] + ['... %d more ...' % (len(x) - 8)] + x[-4:]
                    return x if len(x) <= 80 else x[:40] + b'...(%d bytes)...' % len(x) + x[-20:]
                return Result(False, clause, '%s: socket %d received %r in reads %r: lines %r, expected %r' % (
                    where, i, short(streams[i]),
                    short([(r[1] if isinstance(r[1], str) else r[1][0] * r[1][1]).encode('latin-1') for r in reads if (r[0] if mode == 'server' else 0) == i]),
                    short(got[i]), short(want)))
        if tap.errors:
            return Result(False, 'line-handler-error', '%s: %r' % (where, tap.errors[:2]))
        return None

    with driver.captured_stderr() as err:
        if driver.settle(tap, 50) < 0:
            return Result(False, 'no-quiescence', 'registration did not settle')
        pending_before = [False] * nsock
        for k, (si, chunk, tick) in enumerate(reads):
            si = si if mode == 'server' else 0
            if isinstance(chunk, list):          # [unit, n]: a long run, written compactly
                chunk = chunk[0] * chunk[1]
                seen.add('long-run')
            data = chunk.encode('latin-1')
            if not data:
                seen.add('empty-read')
            if data.endswith(b'\r'):
                seen.add('chunk-ends-in-CR')
            if streams[si].endswith(b'\r') and data.startswith(b'\n'):
                seen.add('cut-inside-CRLF')
            if streams[si].endswith(b'\xc3') and data.startswith(b'\xa9'):
                seen.add('cut-inside-utf8')
            if mode == 'server' and any(pending_before[j] for j in range(nsock) if j != si) and ref_split(streams[si])[1]:
                seen.add('partials-of-two-sockets-pending')
            streams[si] += data
            pending_before[si] = bool(ref_split(streams[si])[1])
            if mode == 'server':
                tap.fire(read(socks[si], data))
            else:
                tap.fire(read(data))
            if tick:
                if driver.settle(tap, 200) < 0:
                    return Result(False, 'no-quiescence', 'read %d did not settle' % k)
                bad = judge('after read %d' % k)
                if bad is not None:
                    return bad
            else:
                seen.add('batched-reads')
        if driver.settle(tap, 200) < 0:
            return Result(False, 'no-quiescence', 'final settle')
        bad = judge('at end')
        if bad is not None:
            return bad
    if err.getvalue().strip():
        return Result(False, 'line-handler-error', 'error output: %s' % err.getvalue()[-300:])

    empty_line = False
    for i in range(nsock):
        lines, tail = ref_split(streams[i])
        if b'' in lines:
            empty_line = True
        if any(b'\r' in x for x in lines):
            seen.add('CR-inside-line')
        if tail:
            seen.add('tail-held-at-end')
        if lines:
            seen.add('has-lines')
    if empty_line:
        seen.add('empty-line')
    if len({r[0] for r in reads}) > 1 and mode == 'server':
        seen.add('multi-socket')
    if sum(1 for r in reads if r[1]) > 1:
        seen.add('segmented')
    nontrivial = 'chunk-ends-in-CR' in seen or empty_line
    return Result(True, nontrivial=nontrivial, classes=classes + ['line:' + c for c in sorted(seen)])


# ---------------------------------------------------------------------------------------------- part (b): irc

MsgError = irc_message.Error
Message = irc_message.Message


def _ctor_table():
    """name -> (n_required, n_optional, varargs) for every constructor defined in irc.commands."""
    table = {}
    for name, fn in sorted(vars(irc_commands).items()):
        if not (inspect.isfunction(fn) and fn.__module__ == irc_commands.__name__ and name.isupper()):
            continue
        req = opt = 0
        var = False
        ok = True
        for p in inspect.signature(fn).parameters.values():
            if p.kind == p.VAR_POSITIONAL:
                var = True
            elif p.kind in (p.POSITIONAL_ONLY, p.POSITIONAL_OR_KEYWORD):
                if p.default is p.empty:
                    req += 1
                elif p.default is None:
                    opt += 1
                else:
                    ok = False
            else:
                ok = False
        if ok:
            table[name] = (req, opt, var)
    return table


# The pinned set; constructors added later are picked up by introspection as well.
STATIC_CTORS = {
    'AWAY': (0, 1, False), 'NICK': (1, 1, False), 'USER': (4, 0, False), 'PASS': (1, 0, False),
    'PONG': (1, 1, False), 'QUIT': (0, 1, False), 'JOIN': (1, 1, False), 'PART': (1, 1, False),
    'PRIVMSG': (2, 0, False), 'NOTICE': (2, 0, False), 'KICK': (2, 1, False), 'TOPIC': (1, 1, False),
    'MODE': (1, 0, True), 'INVITE': (2, 0, False), 'NAMES': (0, 1, False), 'WHOIS': (1, 1, False),
    'WHO': (0, 2, False),
}
CTORS = dict(STATIC_CTORS)
CTORS.update(_ctor_table())
CTOR_NAMES = sorted(CTORS)

ALPHABET = ['a', ' ', ':', '\r', '\n', '\0', 'é']


def _bad_chars(s):
    return '\r' in s or '\n' in s


def _middle_ok(s):
    return bool(s) and ' ' not in s and not s.startswith(':') and not _bad_chars(s)


def _middle_rt_ok(s):
    # a space in a non-final argument cannot be represented on the wire: the message must be refused (the pinned
    # tree does) -- if it is serialised nevertheless, the round trip is still owed
    return bool(s) and not s.startswith(':') and not _bad_chars(s)


def _final_ok(s):
    return bool(s) and not s.startswith(':') and not _bad_chars(s)


class IrcTap(BaseComponent):
    channel = '*'

    def init(self):
        self.writes = []
        self.errors = []
        self.responses = []

    @handler('write')
    def _on_write(self, *args):
        self.writes.append(args)

    @handler('exception')
    def _on_exception(self, *args, **kwargs):
        self.errors.append(args[:2])

    @handler()
    def _on_any(self, event, *args, **kwargs):
        if isinstance(event, response):
            self.responses.append((event.name, tuple(event.args)))


def _join_prefix(t):
    """Inverse of the (nick, user, host) form parsemsg returns for a prefix."""
    if not isinstance(t, tuple) or len(t) != 3:
        return ('bad', t)
    nick, user, host = t
    if user is None and host is None:
        return nick
    return '%s!%s@%s' % (nick or '', user or '', host or '')


def exec_irc(spec):
    ctor = spec['ctor']
    given = list(spec['args'])
    # WHOIS puts `server` into the command slot on the pinned tree (not asserted, see assumptions); a command is never bytes
    as_bytes = bool(spec.get('bytes_args')) and ctor != 'WHOIS' and not spec.get('late')
    via = spec.get('via', 'bytes')
    prefix = spec.get('prefix') if ctor == 'Message' else None
    # a list stands for the (nick, user, host) tuple parsemsg() returns, handed on as it is by relaying code: "no prefix
    # value can inject a line" is owed for it too; serialising it or a faithful round trip is not (prefix_ok is False)
    prefix_value = prefix
    if isinstance(prefix, list):
        prefix_value = tuple(prefix)
        prefix = ' '.join(x for x in prefix if x is not None) + ' '
    command = spec.get('command') if ctor == 'Message' else ctor
    strings = [a for a in given if a is not None]
    classes = ['irc:ctor:' + ctor, 'irc:via:' + via]
    if as_bytes:
        classes.append('irc:bytes-args')
    if prefix is not None:
        classes.append('irc:with-prefix')
    if isinstance(prefix_value, tuple):
        classes.append('irc:tuple-prefix')

    everything = strings + ([prefix] if prefix is not None else []) + ([command] if ctor == 'Message' else [])
    for label, ch in (('CR', '\r'), ('LF', '\n'), ('NUL', '\0'), ('colon', ':'), ('space', ' '), ('utf8', 'é')):
        if any(ch in s for s in everything):
            classes.append('irc:has-' + label)
    if any(_bad_chars(s) for s in strings):
        classes.append('irc:CRLF-in-arg')
    if prefix is not None and _bad_chars(prefix):
        classes.append('irc:CRLF-in-prefix')
    if ctor == 'Message' and _bad_chars(command):
        classes.append('irc:CRLF-in-command')
    nontrivial = any(('\r' in s or '\n' in s or ':' in s) for s in everything)

    # ---- domains
    if ctor == 'WHOIS':
        # which of (nickmasks, server) ends up as command / middle / final argument is not fixed by the statement
        args_wellformed = args_rt = all(_middle_ok(s) for s in strings)
    else:
        args_wellformed = all(_middle_ok(s) for s in strings[:-1]) and (not strings or _final_ok(strings[-1]))
        args_rt = all(_middle_rt_ok(s) for s in strings[:-1]) and (not strings or _final_ok(strings[-1]))
    prefix_ok = prefix is None or (bool(prefix) and ' ' not in prefix and not _bad_chars(prefix))
    command_ok = ctor != 'Message' or _middle_ok(command)
    unambiguous = args_rt and prefix_ok and command_ok                   # round trip is owed if it serialises
    wellformed = (args_wellformed and prefix_ok and command_ok
                  and not any('\0' in s for s in everything))           # serialisation is owed
    injection = any(_bad_chars(s) for s in everything)

    def desc():
        return 'ctor=%s command=%r prefix=%r args=%r bytes_args=%d via=%s' % (ctor, command, prefix_value, given, as_bytes, via)

    # ---- construct
    call_args = [a.encode('utf-8') if (as_bytes and a is not None) else a for a in given]
    rejected = None
    msg = None
    ev = None
    try:
        if ctor == 'Message':
            kw = {} if prefix is None else {'prefix': prefix_value}
            if spec.get('late'):
                # construct, then fill in (examples/ircd.py: reply() inserts the nick and sets the prefix of a message
                # built earlier): what goes onto the wire is judged as before
                classes.append('irc:filled-in-after-construction')
                msg = Message(command)
                msg.args.extend(a for a in given if a is not None)
                if prefix is not None:
                    msg.prefix = prefix_value if isinstance(prefix_value, tuple) else str(prefix_value)
            else:
                msg = Message(command, *call_args, **kw)
            ev = request(msg)
        else:
            fn = getattr(irc_commands, ctor, None)
            if fn is None:
                return Result(True, inconclusive=True, classes=['irc:ctor-missing'])
            try:
                inspect.signature(fn).bind(*call_args)
            except TypeError:
                return Result(True, inconclusive=True, classes=['irc:arity-mismatch'])
            ev = fn(*call_args)
            msg = ev.args[0] if getattr(ev, 'args', None) else None
    except MsgError as e:
        rejected = ('construction', e)
    except Exception as e:  # noqa: any other exception still means nothing was put on the wire
        rejected = ('construction*', e)

    data = None
    if rejected is None:
        if not isinstance(msg, Message):
            return Result(False, 'ctor-no-message', '%s: constructor did not yield request(Message): %r' % (desc(), ev))
        if via == 'bytes':
            try:
                data = bytes(msg)
            except MsgError as e:
                rejected = ('serialisation', e)
            except Exception as e:  # noqa
                rejected = ('serialisation*', e)
        else:
            root = IRC()
            tap = IrcTap().register(root)
            with driver.captured_stderr():
                if driver.settle(root, 50) < 0:
                    return Result(False, 'no-quiescence', 'IRC registration did not settle')
                root.fire(ev)
                if driver.settle(root, 200) < 0:
                    return Result(False, 'no-quiescence', '%s: request did not settle' % desc())
            if tap.errors:
                etype, evalue = tap.errors[0]
                rejected = ('serialisation' if isinstance(evalue, MsgError) else 'serialisation*', evalue)
                if tap.writes:
                    return Result(False, 'write-despite-error', '%s: %r written although %r was raised' % (desc(), tap.writes, evalue))
            else:
                if len(tap.writes) != 1 or len(tap.writes[0]) != 1:
                    return Result(False, 'request-write-count', '%s: IRC.request produced writes %r' % (desc(), tap.writes))
                data = tap.writes[0][0]

    if rejected is not None:
        stage, exc = rejected
        classes.append('irc:rejected')
        classes.append('irc:rejected-by-' + ('Error' if isinstance(exc, MsgError) else 'other-exception'))
        if wellformed:
            return Result(False, 'wellformed-rejected', '%s: well-formed message refused at %s: %r' % (desc(), stage, exc), nontrivial, classes)
        return Result(True, nontrivial=nontrivial, classes=classes)

    # ---- exactly one CRLF-terminated line
    classes.append('irc:serialised')
    if not isinstance(data, bytes):
        return Result(False, 'not-bytes', '%s: serialised to %r' % (desc(), data), nontrivial, classes)
    body = data[:-2]
    if not data.endswith(b'\r\n') or b'\r' in body or b'\n' in body or ref_split(data) != ([body], b''):
        where = 'argument'
        if prefix is not None and _bad_chars(prefix):
            where = 'prefix'
        elif ctor == 'Message' and _bad_chars(command):
            where = 'command'
        elif not injection:
            where = 'format'
        return Result(False, 'line-injection-' + where, '%s: wire bytes %r are not exactly one CRLF-terminated line (reference split: %r)' % (
            desc(), data, ref_split(data)), nontrivial, classes)

    # ---- round trip
    if unambiguous:
        classes.append('irc:roundtrip-checked')
        try:
            got_prefix, got_command, got_args = parsemsg(body)
        except Exception as e:  # noqa
            return Result(False, 'parse-raises', '%s: parsemsg(%r) raised %r' % (desc(), body, e), nontrivial, classes)
        if ctor == 'WHOIS':
            want = sorted(strings)
            have = sorted([got_command] + list(got_args), key=str)
            rest = list(have)
            okw = True
            for w in want:
                if w in rest:
                    rest.remove(w)
                else:
                    okw = False
            if not okw or got_command != str(msg.command) or list(got_args) != list(msg.args):
                return Result(False, 'roundtrip', '%s: wire %r parsed to command %r args %r' % (desc(), data, got_command, got_args), nontrivial, classes)
        else:
            if got_command != command or list(got_args) != strings:
                return Result(False, 'roundtrip', '%s: wire %r parsed to command %r args %r, expected %r %r' % (
                    desc(), data, got_command, got_args, command, strings), nontrivial, classes)
        if _join_prefix(got_prefix) != prefix:
            return Result(False, 'roundtrip-prefix', '%s: wire %r parsed to prefix %r' % (desc(), data, got_prefix), nontrivial, classes)

        # ---- end to end through a receiving IRC component (narrow domain: a known command word)
        if via == 'component' and isinstance(got_command, str) and got_command.upper() in STATIC_CTORS and got_command.isascii() and got_command.isalpha():
            classes.append('irc:end-to-end')
            rx = IRC()
            rtap = IrcTap().register(rx)
            with driver.captured_stderr():
                driver.settle(rx, 50)
                rx.fire(read(data))
                if driver.settle(rx, 200) < 0:
                    return Result(False, 'no-quiescence', '%s: receiving side did not settle' % desc())
            want_ev = (got_command.lower(), (got_prefix,) + tuple(got_args))
            if rtap.responses != [want_ev]:
                return Result(False, 'end-to-end', '%s: wire %r delivered as %r, expected %r' % (desc(), data, rtap.responses, [want_ev]), nontrivial, classes)
    return Result(True, nontrivial=nontrivial, classes=classes)


# ---------------------------------------------------------------------------------------------- strategies

TOKENS = ['a', E_ACUTE, '\r', '\n', '\r\n', '', ' ', 'bc', '\n', '\r']


def _line_strategy(tier):
    big = tier != 'quick'
    stream = st.lists(st.sampled_from(TOKENS), max_size=16 if big else 10).map(''.join)

    def make(mode, streams, cuts, cut_after_cr, order, ticks):
        if mode == 'client':
            streams, cuts = streams[:1], cuts[:1]
        cuts = [list(c) for c in cuts] + [[] for _ in range(len(streams) - len(cuts))]
        for i, s in enumerate(streams):
            if cut_after_cr[i % len(cut_after_cr)]:
                cuts[i] = cuts[i] + [k + 1 for k, ch in enumerate(s) if ch == '\r']
        reads = build_reads(streams, cuts[:len(streams)], order, ticks)
        return {'part': 'line', 'mode': mode, 'nsock': len(streams), 'reads': reads}

    return st.builds(
        make,
        st.sampled_from(['client', 'server', 'server']),
        st.lists(stream, min_size=1, max_size=3),
        st.lists(st.lists(st.integers(0, 60), max_size=8 if big else 5), min_size=3, max_size=3),
        st.lists(st.booleans(), min_size=3, max_size=3),
        st.lists(st.integers(0, 5), max_size=30),
        st.lists(st.sampled_from([1, 1, 1, 0]), max_size=30),
    )


def _irc_strategy(tier):
    n = 5 if tier == 'quick' else 7
    hostile = st.text(alphabet=st.sampled_from(ALPHABET), max_size=n)
    benign = st.text(alphabet=st.sampled_from(['a', 'b', 'é', ':', '#', '\0', 'a']), min_size=1, max_size=n).map(
        lambda s: s if not s.startswith(':') else 'x' + s)
    clean = st.text(alphabet=st.sampled_from(['a', 'b', 'é', ':', '#']), min_size=1, max_size=n).map(
        lambda s: s if not s.startswith(':') else 'x' + s)
    spaced = st.text(alphabet=st.sampled_from(['a', ' ', ':', 'é', ' ']), min_size=1, max_size=n + 2).map(
        lambda s: s if not s.startswith(':') else 'x' + s)
    one_bad = st.tuples(clean, st.sampled_from(['\r', '\n', '\r\n', '\rQUIT', '\nQUIT :x']), st.sampled_from(['', 'a', ' b'])).map(''.join)
    middle = st.one_of(clean, clean, benign, hostile, one_bad)
    final = st.one_of(clean, spaced, spaced, benign, hostile, one_bad)
    part = st.one_of(st.none(), clean, clean, hostile, one_bad)
    prefix = st.one_of(st.none(), st.none(), st.sampled_from(['nick', 'nick!user@host', 'irc.example.org', 'é!a@b']), clean, hostile, one_bad,
                       st.tuples(st.one_of(clean, hostile, one_bad), part, part).map(list))
    command = st.one_of(st.sampled_from(['PRIVMSG', 'NOTICE', 'JOIN', 'QUIT', 'MODE', '001', '433', 'privmsg']), clean, hostile, one_bad)

    def ctor_spec(name):
        req, opt, var = CTORS[name]

        def args_for(k_opt, n_var):
            total = req + k_opt + n_var
            if total == 0:
                return st.just([])
            return st.tuples(*([middle] * (total - 1) + [final])).map(list)

        def fill(t):
            k_opt, n_var, holes = t
            return args_for(k_opt, n_var).map(lambda a: _with_holes(a, req, opt, k_opt, holes))

        return st.tuples(st.integers(0, opt), st.integers(0, 3 if var else 0), st.integers(0, 7)).flatmap(fill).map(
            lambda a: {'part': 'irc', 'ctor': name, 'args': a})

    def _with_holes(a, req, opt, k_opt, holes):
        # optional parameters that are not supplied are passed as None; with k_opt < opt the supplied ones may
        # be any subset of the optional slots (WHO(None, 'o'))
        if opt == 0:
            return a
        head, rest = a[:req], a[req:]
        supplied, tail = rest[:k_opt], rest[k_opt:]
        slots = [None] * opt
        combos = list(itertools.combinations(range(opt), k_opt))
        for pos, val in zip(combos[holes % len(combos)], supplied):
            slots[pos] = val
        while slots and slots[-1] is None:
            slots.pop()
        return head + slots + tail

    ctor = st.sampled_from(CTOR_NAMES).flatmap(ctor_spec)
    direct = st.builds(
        lambda c, p, a: {'part': 'irc', 'ctor': 'Message', 'command': c, 'prefix': p, 'args': a},
        command, prefix,
        st.one_of(st.just([]), st.tuples(final).map(list), st.tuples(middle, final).map(list),
                  st.tuples(middle, middle, final).map(list)))
    return st.tuples(st.one_of(ctor, ctor, direct), st.sampled_from([0, 0, 0, 1]), st.sampled_from(['bytes', 'bytes', 'component']),
                     st.sampled_from([0, 0, 1])).map(
        lambda t: dict(t[0], bytes_args=t[1], via=t[2], **({'late': 1} if t[3] and t[0]['ctor'] == 'Message' else {})))


def _all_strings(alphabet, max_len):
    out = ['']
    for n in range(1, max_len + 1):
        out.extend(''.join(p) for p in itertools.product(alphabet, repeat=n))
    return out


def _subsets(n_positions, max_cuts):
    for k in range(0, max_cuts + 1):
        yield from itertools.combinations(range(1, n_positions + 1), k)


class C18(Prop):
    id = 'C18'
    rule = ('(a) byte streams over {a, é (2 bytes), CR, LF, CRLF, empty, space, bc} cut into reads (every multi-cut of every '
            'stream of <=4 tokens enumerated, <=5 in thorough; random longer ones), client mode and server mode with 1-3 '
            'interleaved sockets and defaultdict-backed getBuffer/updateBuffer, reads settled one by one or batched; '
            'plus enumerated lines of 70 kB..1.1 MB arriving in 4 KiB reads; non-trivial = a read ends in CR or the stream contains an empty line. '
            '(b) every constructor of irc.commands and Message(command, *args, prefix=) applied to strings over '
            '{a, space, colon, CR, LF, NUL, é}: every string of length <=3 (thorough <=4) in every argument position '
            'of every constructor, all pairs of strings <=2 for two-argument constructors, random longer ones, str and '
            'bytes arguments, prefix also as (nick, user, host) tuple, arguments/prefix also filled in after construction, serialised by bytes() or through IRC.request; non-trivial = some argument, prefix or '
            'command contains CR, LF or a colon. distinct = distinct spec hash')
    assumptions = (
        'cross-socket order of line events is not asserted, only the per-socket sequence',
        'content of Line.buffer / the value handed to updateBuffer is not asserted, only the emitted lines',
        'rejection = any exception at construction or serialisation (the module\'s Error on the pinned tree); '
        'inputs with CR/LF/NUL, a space or leading colon in a non-final argument, an empty argument, a leading colon '
        'in the final argument, an empty or spaced prefix/command may be rejected or serialised; if serialised they '
        'must still be exactly one line',
        'round trip is asserted only where the wire format is unambiguous (non-final args non-empty without space or '
        'leading colon, final arg non-empty without leading colon, prefix absent or non-empty without space, no CR/LF)',
        'WHOIS: which of (nickmasks, server) becomes command or argument is not asserted (the pinned tree puts server in '
        'the command slot; tests/protocols marks it xfail)',
        'arguments are str or utf-8 bytes; encoding is the default utf-8',
    )
    budget = {'quick': (1500, 4), 'thorough': (50000, 16)}
    enum_procs = 8

    def setup(self):
        driver.quiet_process()

    def strategy(self, tier):
        return st.one_of(_line_strategy(tier), _irc_strategy(tier))

    # ------------------------------------------------------------------ finite sub-domains
    def enumerate(self, tier):
        quick = tier == 'quick'
        specs = []
        # (a) every multi-cut of every short stream, client mode
        toks = ['a', E_ACUTE, '\r', '\n', ' ']
        max_tok = 4 if quick else 5
        spoilers = [('x\r', '\ny'), ('\n', 'z'), ('q', '\r\n')]
        for n in range(0, max_tok + 1):
            for combo in itertools.product(toks, repeat=n):
                s = ''.join(combo)
                for cuts in _subsets(len(s) - 1, len(s)):
                    pieces = [s[i:j] for i, j in zip((0,) + cuts, cuts + (len(s),))]
                    specs.append({'part': 'line', 'mode': 'client', 'nsock': 1, 'reads': [[0, p, 1] for p in pieces]})
                    if len(cuts) == 1:
                        # both halves queued before the loop runs
                        specs.append({'part': 'line', 'mode': 'client', 'nsock': 1, 'reads': [[0, p, 0] for p in pieces]})
                        # server mode: another socket's partial line arrives between the halves
                        for k, (b1, b2) in enumerate(spoilers):
                            if quick and (n + k) % 3:
                                continue
                            specs.append({'part': 'line', 'mode': 'server', 'nsock': 2,
                                          'reads': [[1, b1, 1], [0, pieces[0], 1], [1, b2, 1], [0, pieces[1], 1]]})
                            specs.append({'part': 'line', 'mode': 'server', 'nsock': 2,
                                          'reads': [[0, pieces[0], 0], [1, b1, 0], [0, pieces[1], 0], [1, b2, 1]]})
                if n <= 3:
                    # server mode, same stream on three sockets byte-at-a-time, round-robin
                    reads = []
                    for i in range(len(s)):
                        for sk in range(3):
                            reads.append([sk, s[i], 1 if sk == 2 else 0])
                    if reads:
                        specs.append({'part': 'line', 'mode': 'server', 'nsock': 3, 'reads': reads})

        # (a2) lines far longer than any read: the unterminated tail is held over hundreds of reads
        for total in ((70000, 200000) if quick else (70000, 200000, 1100000)):
            reads = [[0, ['ab' + E_ACUTE[:1], 1365], 1] for _ in range(total // 4095)] + [[0, 'end\r', 1], [0, '\nnext\n', 1], [0, 'tail', 1]]
            specs.append({'part': 'line', 'mode': 'client', 'nsock': 1, 'reads': reads})
            sreads = []
            for i, r in enumerate(reads):
                sreads.append([0] + r[1:])
                if i % 7 == 0:
                    sreads.append([1, 'x' if i % 14 else 'y\n', 1])
            specs.append({'part': 'line', 'mode': 'server', 'nsock': 2, 'reads': sreads})

        # (b) every string in every argument position
        strings = _all_strings(ALPHABET, 3 if quick else 4)
        small = _all_strings(ALPHABET, 2)
        focus = ['PRIVMSG', 'USER', 'KICK', 'MODE', 'AWAY', 'WHOIS', 'NICK']
        for name in CTOR_NAMES:
            req, opt, var = CTORS[name]
            total = req + opt + (2 if var else 0)
            pool = strings if (not quick or name in focus) else small
            for pos in range(total):
                for s in pool:
                    a = ['x%d' % i for i in range(total)]
                    a[pos] = s
                    specs.append({'part': 'irc', 'ctor': name, 'args': a, 'bytes_args': 0, 'via': 'bytes'})
            if total == 2:
                for s1 in small:
                    for s2 in small:
                        specs.append({'part': 'irc', 'ctor': name, 'args': [s1, s2], 'bytes_args': 0, 'via': 'bytes'})
        for s in strings:
            specs.append({'part': 'irc', 'ctor': 'Message', 'command': 'PRIVMSG', 'prefix': s, 'args': ['#c', 'hello'], 'bytes_args': 0, 'via': 'bytes'})
            specs.append({'part': 'irc', 'ctor': 'Message', 'command': s, 'prefix': None, 'args': ['#c', 'hello'], 'bytes_args': 0, 'via': 'bytes'})
            specs.append({'part': 'irc', 'ctor': 'Message', 'command': s, 'prefix': 'nick!u@h', 'args': [], 'bytes_args': 0, 'via': 'bytes'})
            specs.append({'part': 'irc', 'ctor': 'Message', 'command': 'NOTICE', 'prefix': 'srv', 'args': ['#c', s], 'bytes_args': 1, 'via': 'bytes'})
        for s in small:
            specs.append({'part': 'irc', 'ctor': 'Message', 'command': 'PRIVMSG', 'prefix': s, 'args': ['#c', 'hello'], 'bytes_args': 0, 'via': 'bytes', 'late': 1})
            specs.append({'part': 'irc', 'ctor': 'Message', 'command': 'PRIVMSG', 'prefix': None, 'args': [s, 'hello'], 'bytes_args': 0, 'via': 'bytes', 'late': 1})
            specs.append({'part': 'irc', 'ctor': 'Message', 'command': 'PRIVMSG', 'prefix': 'srv', 'args': ['#c', s], 'bytes_args': 0, 'via': 'component', 'late': 1})
            for tup in ([s, 'user', 'host'], ['nick', s, 'host'], ['nick', 'user', s], [s, None, None], ['nick', s, None]):
                specs.append({'part': 'irc', 'ctor': 'Message', 'command': 'PRIVMSG', 'prefix': tup, 'args': ['#c', 'hello'], 'bytes_args': 0, 'via': 'bytes'})
            specs.append({'part': 'irc', 'ctor': 'Message', 'command': 'PRIVMSG', 'prefix': s, 'args': ['#c', 'hello'], 'bytes_args': 0, 'via': 'component'})
            specs.append({'part': 'irc', 'ctor': 'PRIVMSG', 'args': ['#c', s], 'bytes_args': 0, 'via': 'component'})
            specs.append({'part': 'irc', 'ctor': 'PRIVMSG', 'args': [s, 'hi there'], 'bytes_args': 1, 'via': 'component'})
        return specs

    def execute(self, spec):
        if spec.get('part') == 'line':
            return exec_line(spec)
        return exec_irc(spec)


PROP = C18()
