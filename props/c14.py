"""C14 — any bytes on an HTTP connection: wait, or exactly one valid response, or plain close; never a crash, no residue.

Spec (all JSON):
  {"base":  {"m","t","v","h":[..],"b","c","p","x"}  grammar indices of a well-formed request  |  "<raw latin-1 request>",
   "muts":  [[op, a, b], ...]      mutation operators of vlib.c14_helpers applied in order
   "cuts":  [int, ...]             read boundaries (resolved modulo the length); "bytewise": true = one byte per read
   "dc":    k                      disconnect after k reads (-1 = after all; resolved modulo reads+1)
   "dcq":   bool                   the disconnect is queued together with the last delivered read (same loop pass)
   "pre":   bool                   a well-formed keep-alive request was answered on the connection before
   "psplit": bool                  the liveness probe connection sends half of its request BEFORE the hostile traffic}
  base may carry "hf": index of the Host line (plain / folded variants).

Every delivery (read or disconnect + settle) runs under vlib.c14_helpers.Watchdog: CPU-time limit WD_LIMIT (wall-clock
backstop 6x); a case whose delivery had to be interrupted is run a second time with twice the limit and only then reported
(clause loop-blocked).

Interpreter: socket-less rig (FakeServer + HTTP + Dispatcher + controllers), one read event per piece, settle after each.
When the component asks for the connection to be closed the harness does what the server component does: no further
reads, then disconnect(sock).
"""
import json
import os
import re
import shutil
import subprocess
import sys
import tempfile

from hypothesis import strategies as st

from circuits import BaseComponent, handler
from circuits.net.events import disconnect, read
from circuits.web import Controller
from vlib import c14_helpers as H
from vlib import driver
from vlib.httprig import Rig
from vlib.runner import Prop, Result

PRE = b'GET /echo?pre=1 HTTP/1.1\r\nHost: example.org\r\nConnection: keep-alive\r\n\r\n'
PROBE = b'GET / HTTP/1.1\r\nHost: probe.example\r\n\r\n'
PROBE_CUT = 8

# raw requests whose every truncation is enumerated (quick tier); the first ones are well-formed
ENUM_SEEDS = [
    'GET / HTTP/1.1\r\nHost: a\r\n\r\n',
    'POST /echo?x=1 HTTP/1.1\r\nHost: a\r\nContent-Type: text/plain\r\nContent-Length: 5\r\n\r\nhello',
    'POST /echo HTTP/1.1\r\nHost: a\r\nTransfer-Encoding: chunked\r\n\r\n5;e=1\r\nhello\r\n3\r\nabc\r\n0\r\nX-T: 1\r\n\r\n',
    'GET /echo HTTP/1.0\r\nX-Folded: a\r\n b\r\nConnection: keep-alive\r\n\r\n',
    'POST /echo HTTP/1.1\r\nHost: a\r\nContent-Type: application/x-www-form-urlencoded\r\nContent-Length: 9\r\n\r\na=1&b=two',
    'POST /echo HTTP/1.1\r\nHost: a\r\nContent-Length: abc\r\n\r\nxx',
    'POST /echo HTTP/1.1\r\nHost: a\r\nContent-Length: 3\r\nContent-Length: 5\r\n\r\nabcde',
    'POST /echo HTTP/1.1\r\nHost: a\r\nTransfer-Encoding: chunked\r\n\r\nZZ\r\nabc\r\n0\r\n\r\n',
    'GET /\\x41\\u12 HTTP/1.1\r\nHost: a\\u12\r\n\r\n',
    'GET / HTTP/2.0\r\nHost: a:xyz\r\nX-Foo\r\n\r\n',
    '\x16\x03\x01\x02\x00\x01\x00\x01\xfc\x03\x03' + 'A' * 20,
    '\x80\x2e\x01\x00\x02\x00\x15\x00\x00\x00\x10' + 'B' * 20,
    'GET /../x HTTP/1.1\r\nHost: a\r\nCookie: a=b; \x01=\x02;;;=\r\n\r\n',
    'GET /boom HTTP/1.1\r\nHost: a\r\n\r\n',
    'GET / HTTP/12.34\r\nHost: a\r\n\r\n',
    'GET /echo;\\x00p=1 HTTP/1.1\r\nHost: a\r\n\r\n',
    'GET /echo HTTP/1.1\r\nHost: a\r\nCookie: a="b\\r\\nX y"\r\n\r\n',
    'GET /echo HTTP/1.15\r\nHost: a\r\n\r\n',
    'GET /reflect HTTP/1.1\r\nHost: a\r\nX-Custom: v\\u20ac\r\n\r\n',
    'GET /badhdr HTTP/1.1\r\nHost: a\r\n\r\n',
    'GET / HTTP/0.12\r\nHost: a\r\n\r\n',
    'GET / HTTP/1.1\r\nHost: a\r\nCookie: a="\\u20ac"\r\n\r\n',
    # hostile characters on a folded continuation line of a header whose value is echoed (Set-Cookie, Location)
    'GET /echo HTTP/1.1\r\nHost: a\r\nCookie: a="b\r\n \\r\\nX y"\r\n\r\n',
    'GET / HTTP/1.1\r\nHost: a\r\nCookie: a="b\r\n\t\\u20ac"\r\n\r\n',
    'GET /echo/../echo HTTP/1.1\r\nHost: a\r\n \x00b\r\n\r\n',
    # long header values with a NUL / an escape outside latin-1 at / near the end
    'GET / HTTP/1.1\r\nHost: a\r\nUser-Agent: Mozilla/5.0 (X11; Linux x86_64; rv:128.0) Gecko/20100101 Firefox/128.0\x00\r\n\r\n',
    'GET /reflect HTTP/1.1\r\nHost: a\r\nX-Custom: ' + '0123456789abcdef' * 4 + '\\u20acxy\r\n\r\n',
]


class Root(Controller):
    def index(self, *args, **kwargs):
        return 'hello'

    def echo(self, *args, **kwargs):
        return self.request.body.read() or 'empty'

    def boom(self, *args, **kwargs):
        raise RuntimeError('boom')

    def reflect(self, *args, **kwargs):
        # an application that copies a request header into the response (the response handler fails if it cannot be encoded)
        self.response.headers['X-Echo'] = self.request.headers.get('X-Custom', 'none')
        return 'reflected'

    def badhdr(self, *args, **kwargs):
        # an application bug: a header value that cannot be sent; the response handler of the HTTP component fails
        self.response.headers['X-Bad'] = '\u20ac'
        return 'never sent'


class Obs(BaseComponent):
    """Observer: which events failed, how many response events were fired."""

    channel = 'web'

    def init(self):
        self.failed = []      # names of events whose handler raised
        self.responses = 0

    @handler('exception', channel='*', priority=101)
    def _x(self, *args, **kwargs):
        fe = kwargs.get('fevent')
        self.failed.append(getattr(fe, 'name', None))

    @handler('response', priority=101)
    def _resp(self, *args, **kwargs):
        self.responses += 1


MAX_TICKS = 400
MAX_QUEUE = 2000

# One delivery (fire + settle) normally costs < 5 ms of CPU. WD_LIMIT seconds of CPU time of this process (not wall clock: load
# on the machine does not count) before the watchdog interrupts it; the case is then repeated with twice the limit before
# anything is reported. Once a process has CONFIRMED a blocked loop (both runs), later cases of that process (= shrinking
# of the replay; the verdict is settled) use WD_CONFIRMED without a second run.
WD_LIMIT = 20.0
WD_CONFIRMED = 5.0
WD = H.Watchdog()


def _settle(rig):
    """tick() until quiescent; give up (rig.stuck) after MAX_TICKS passes or when the queue explodes.

    A failing handler that is answered twice doubles the number of queued events in every pass: the bound on the queue
    length keeps such a case from taking for ever (bounded work, verdict 'no-quiescence').
    """
    root = rig.srv
    n = 0
    while not driver.quiescent(root):
        if WD.fired:
            return -1       # the watchdog interrupted a handler: the caller reports it
        if n >= MAX_TICKS or len(root._queue) > MAX_QUEUE:
            rig.stuck = True
            return -1
        root.tick()
        n += 1
    return n


def _retained(http, sock):
    """Names of containers of the HTTP component that still mention the socket."""
    out = []
    for name, val in sorted(vars(http).items()):
        if name in ('_handlers', '_cache', '_globals', 'components', '_queue', '_tasks', '_executing_thread'):
            continue
        if isinstance(val, (dict, set, frozenset, list, tuple)):
            try:
                if sock in val:
                    out.append(name)
                    continue
            except Exception:
                pass
            if isinstance(val, dict):
                for v in val.values():
                    if getattr(v, 'sock', None) is sock or (isinstance(v, tuple) and any(getattr(x, 'sock', None) is sock for x in v)):
                        out.append(name)
                        break
    return out


class C14(Prop):
    id = 'C14'
    rule = ('grammar-generated well-formed requests (method x target x version x plain/folded Host x 0-5 headers incl. folded '
            '(also folded Cookie / X-Custom, whose values are echoed) and long (64-190 characters) ones x '
            'no body/Content-Length/chunked with extensions and trailers x content types; controllers: hello, echo, one that '
            'raises, one that copies a request header into the response, one whose response cannot be encoded) changed by 1-3 of '
            '45 mutation operators (request line, headers, '
            'oversized parts, Content-Length, chunk framing, backslash escapes, NUL, high bytes, TLS/SSL hellos, truncation, '
            'generic byte edits; NUL / escaped CR LF NUL (hex, octal) / escapes outside latin-1 / raw high bytes on a folded '
            'continuation line of Cookie, Host (+ non-canonical path), X-Custom or any header; the same fragments at or within 3 '
            'characters of the end of a 30-200 character value), delivered as 1-5 reads or byte-wise, disconnect after any read '
            '(also queued in the same loop '
            'pass), optionally after an answered keep-alive request, liveness probe connection optionally half-open during '
            'the hostile traffic; every delivery under a CPU-time watchdog (20 s, case repeated with 40 s before clause '
            'loop-blocked is reported); exhaustive part: every truncation of 27 fixed requests (one read + disconnect) and every '
            'two-read split of them with the disconnect after the first part; '
            'reference readings (plain shapes only, RFC 7230) decide which messages MUST be refused: method not a token, version not HTTP/d.d, header line without colon or with a non-token name, Content-Length not 1*DIGIT or conflicting, chunk-size not 1*HEXDIG; a complete body-less header block must be answered (clause stalled); '
            'non-trivial = the bytes differ from the well-formed seed and the connection did not get a 200 as its first '
            'answer (4xx/5xx/3xx, nothing, or plain close); distinct = distinct spec hash')
    assumptions = (
        'one read event carries at most one message (pipelining is outside the statement); at most one response per read is asserted',
        'after the component fires close(sock) the server component delivers no further reads and fires disconnect(sock)',
        'which 4xx/5xx is chosen is not asserted; whether malformed input is rejected or tolerated is asserted only for the shapes '
        'the quantifier names and RFC 7230 leaves no room for (plain request line with a non-token method or a version that is not '
        'HTTP/digits.digits; header line without colon or with a non-token name; Content-Length not 1*DIGIT or conflicting; chunk-size '
        'not 1*HEXDIG) - lenient separators, blanks between name and colon, unknown transfer codings and anything written with '
        'backslash escapes are not judged',
        'a message whose complete header block spells no body framing header has no body: it must be answered, closed or dispatched (stalled)',
        'plain close without a response is accepted only when the FIRST read of a message starts like a TLS/SSL record (0x16 or a byte >= 0x80)',
        'HEAD is not generated (response framing for HEAD is judged by C15)',
    )
    budget = {'quick': (1500, 4), 'thorough': (50000, 16)}
    enum_procs = 8

    watchdog_wall = True        # the atheris entry point turns the wall-clock backstop off (libFuzzer owns SIGALRM)
    _confirmed_blocked = False

    def setup(self):
        driver.quiet_process()
        # every process that executes cases (the runner calls setup() in the parent and in each forked pool worker)
        WD.install(wall=self.watchdog_wall)

    # ------------------------------------------------------------------ generation
    def strategy(self, tier):
        base = st.fixed_dictionaries({
            'm': st.integers(0, len(H.METHODS) - 1), 't': st.integers(0, len(H.TARGETS) - 1),
            'v': st.integers(0, len(H.VERSIONS) - 1), 'h': st.lists(st.integers(0, len(H.HEADERS) - 1), max_size=4),
            'b': st.integers(0, len(H.BODY_KINDS) - 1), 'c': st.integers(0, len(H.CTYPES) - 1),
            'p': st.integers(0, len(H.PAYLOADS) - 1), 'x': st.integers(0, 3),
            'hf': st.sampled_from([0] * 9 + list(range(1, len(H.HOSTS))))})
        mut = st.tuples(st.sampled_from(H.OP_NAMES + ['h_fold_bad', 'h_long_bad'] * 2), st.integers(0, 4095), st.integers(0, 4095)).map(list)
        muts = st.one_of(st.lists(mut, min_size=1, max_size=1), st.lists(mut, min_size=1, max_size=1),
                         st.lists(mut, min_size=0, max_size=3))
        return st.fixed_dictionaries({
            'base': base,
            'muts': muts,
            'cuts': st.one_of(st.just([]), st.lists(st.integers(0, 4095), max_size=4)),
            'bytewise': st.sampled_from([False] * 11 + [True]),
            'dc': st.one_of(st.just(-1), st.integers(0, 5)),
            'dcq': st.sampled_from([False, False, True]),
            'pre': st.sampled_from([False, False, False, True]),
            'psplit': st.sampled_from([False, True]),
            'hicut': st.sampled_from([False, False, True]),
        })

    FUZZ_PROCS = 12
    FUZZ_RUNS = 12000

    def enumerate(self, tier):
        """Every truncation of ENUM_SEEDS (all tiers). In the thorough tier the coverage-guided atheris campaign over raw
        connection bytes (vlib/c14_helpers.py, same oracle inside the target) runs here too: a failing spec it finds is
        handed to the runner with the enumerated cases (-> VIOLATION + replay file); a clean campaign adds nothing and its
        statistics are appended to ``rule`` (the evidence key exhaustive_subdomain describes the truncations only)."""
        out = self.truncations() + self.single_mutations()
        if tier == 'thorough' and not os.environ.get('C14_NO_FUZZ'):
            out = out + self.campaign()
        return out

    def campaign(self):
        from vlib import runner
        verif = runner.VERIF
        if not os.path.isdir(os.path.join(verif, '.deps', 'atheris')):
            self.rule += ' | atheris campaign skipped: atheris not installed in .deps'
            return []
        seed = int(os.environ.get('VERIF_SEED', '1') or 1)
        top = tempfile.mkdtemp(prefix='c14-fuzz-')
        env = dict(os.environ, PYTHONHASHSEED='0',
                   PYTHONPATH=os.pathsep.join([runner.REPO, verif, os.path.join(verif, '.deps')]))
        procs, failing, notes, covs, runs = [], [], [], [], 0
        try:
            for k in range(self.FUZZ_PROCS):
                d = os.path.join(top, 'p%d' % k)
                os.makedirs(d)
                log = open(os.path.join(d, 'log'), 'w')
                procs.append((d, log, subprocess.Popen(
                    [sys.executable, '-m', 'vlib.c14_helpers', '--out', d, '--corpus', os.path.join(verif, 'corpus', 'C14'),
                     '-runs=%d' % self.FUZZ_RUNS, '-seed=%d' % (seed * 1000 + k)],
                    cwd=verif, env=env, stdout=subprocess.DEVNULL, stderr=log)))
            for d, log, p in procs:
                try:
                    rc = p.wait(timeout=3600)
                except subprocess.TimeoutExpired:
                    p.kill()
                    p.wait()
                    rc = None
                log.close()
                text = open(os.path.join(d, 'log'), errors='replace').read()
                if rc == 1 and os.path.exists(os.path.join(d, 'C14-fuzz.json')):
                    with open(os.path.join(d, 'C14-fuzz.json')) as f:
                        failing.append(json.load(f))
                elif rc == 0:
                    m = re.findall(r'cov: (\d+)', text)
                    if m:
                        covs.append(int(m[-1]))
                    m = re.search(r'number_of_executed_units: (\d+)', text)
                    runs += int(m.group(1)) if m else 0
                else:
                    notes.append('campaign %s ended rc=%r: %s' % (os.path.basename(d), rc, text[-200:].replace('\n', ' ')))
        finally:
            for d, log, p in procs:
                if p.poll() is None:
                    p.kill()
            shutil.rmtree(top, ignore_errors=True)
        self.rule += (' | thorough tier additionally ran %d atheris campaigns over raw connection bytes (4 control bytes pick '
                      'read boundaries and the disconnect point; same oracle; seeds %d..%d): %d executions, edge coverage %s, '
                      '%d violations%s' % (
                          self.FUZZ_PROCS, seed * 1000, seed * 1000 + self.FUZZ_PROCS - 1, runs,
                          ('%d-%d' % (min(covs), max(covs))) if covs else 'n/a', len(failing),
                          ('; ' + '; '.join(notes)) if notes else ''))
        seen, out = set(), []
        for f in failing:
            if f['clause'] not in seen:
                seen.add(f['clause'])
                out.append(f['spec'])
        return out

    def single_mutations(self):
        """Every entry of the hostile value lists, applied alone to a plain request (one read, then disconnect): the lists
        are short, so the quick tier visits each entry on every run instead of leaving it to the draw."""
        out = []
        plans = [('rl_method', len(H.BAD_METHODS), 0, 0), ('rl_version', len(H.BAD_VERSIONS), 0, 0), ('h_badname', len(H.BAD_HNAMES), 0, 0),
                 ('cl_value', len(H.BAD_CL), 3, 2), ('cl_respell', 9, 3, 2), ('cl_value', len(H.BAD_CL), 0, 0), ('cl_respell', 9, 0, 0),
                 ('ch_size', len(H.BAD_CHUNK), 3, 4), ('ch_respell', 9, 3, 4), ('h_te', len(H.BAD_TE), 3, 4)]
        for op, n, m, b in plans:
            for a in range(n):
                for bb in ((0, 1) if op in ('h_badname', 'cl_value', 'cl_respell', 'ch_size', 'ch_respell') else (0,)):
                    out.append({'base': {'m': m, 't': 0, 'v': 0, 'h': [], 'b': b, 'c': 0, 'p': 0, 'x': 0, 'hf': 0},
                                'muts': [[op, a if op != 'h_badname' else bb, bb if op != 'h_badname' else a]],
                                'cuts': [], 'bytewise': False, 'dc': -1, 'dcq': False, 'pre': False, 'psplit': False, 'hicut': False})
        return out

    def truncations(self):
        out = []
        for seed in ENUM_SEEDS:
            n = len(seed)
            for k in range(n + 1):
                out.append({'base': seed, 'muts': [['trunc', k, 0]], 'cuts': [], 'bytewise': False, 'dc': -1,
                            'dcq': False, 'pre': False, 'psplit': False})
            for k in range(1, n):
                # whole message in two reads, connection lost after the first
                out.append({'base': seed, 'muts': [], 'cuts': [k - 1], 'bytewise': False, 'dc': 1,
                            'dcq': k % 2 == 0, 'pre': False, 'psplit': k % 3 == 0})
        return out

    # ------------------------------------------------------------------ execution + oracle
    def execute(self, spec):
        if self._confirmed_blocked:
            return self._run(spec, WD_CONFIRMED)
        res = self._run(spec, WD_LIMIT)
        if res.clause != 'loop-blocked':
            return res
        # slowness is not a verdict: once more, with twice the limit
        res2 = self._run(spec, 2 * WD_LIMIT)
        if res2.clause == 'loop-blocked':
            C14._confirmed_blocked = True
            return res2
        res2.classes = tuple(res2.classes) + ('watchdog:interrupted-once-then-fine-with-double-limit',)
        return res2

    def _run(self, spec, limit):
        seed = H.build(spec['base'])
        data = H.mutate(seed, spec['muts'])
        cuts = list(spec['cuts'])
        hicut = False
        if spec.get('hicut') and not spec.get('bytewise', False):
            # a read boundary right before (up to four) bytes that look like the start of a TLS/SSL record (0x16 or >= 0x80)
            hi = [i - 1 for i, b in enumerate(data) if i > 0 and (b == 0x16 or b >= 0x80)][:4]
            if hi:
                cuts = sorted(set(hi))
                hicut = True
        reads = H.split_reads(data, cuts, spec.get('bytewise', False))
        n = len(reads)
        dc = n if spec['dc'] < 0 else spec['dc'] % (n + 1)
        classes = []
        for name, _, _ in spec['muts']:
            for fam in H.OP_FAMILY.get(name, ()):
                classes.append('mut:' + fam)
        if n > 1:
            classes.append('reads:many')
        if hicut and n > 1:
            classes.append('read-starts-with-high-byte-mid-message')
        if dc < n:
            classes.append('dc:before-end')
        if spec['dcq']:
            classes.append('dc:queued')
        if spec['pre']:
            classes.append('pre-request')
        classes.extend(H.shape_classes(b''.join(reads[:dc])))      # of the bytes that are really delivered

        if H.mentions_head(data):
            return Result(True, classes=classes + ['skipped:HEAD'])

        rig = Rig(controllers=[Root()])
        obs = Obs().register(rig.srv)
        rig.settle()
        http, wire = rig.http, rig.wire
        s = rig.sock(1)
        p = rig.sock(2)
        state = {'disconnected': False, 'first': None, 'closed': False}

        def bad(clause, msg):
            return Result(False, clause, '%s | input %r%s reads=%r dc=%d' % (
                msg, data[:200], '...' if len(data) > 200 else '', [len(r) for r in reads][:12], dc), classes=classes)

        since = {}

        def deliver(*events):
            """fire + settle under the watchdog. None, or the Result to return."""
            def go():
                for e in events:
                    rig.srv.fire(e)
                _settle(rig)
            try:
                came_back = WD.run(limit, go)
            except KeyboardInterrupt:
                raise
            except BaseException as e:  # noqa: B036 - anything leaving tick() is the crash the property forbids
                return bad('exception-escaped', 'tick() raised %s while delivering %s: %s' % (
                    type(e).__name__, ' + '.join(x.name for x in events), str(e)[:200]))
            if not came_back:
                return bad('loop-blocked', 'delivering %s did not come back: interrupted after %s (this run: %g s CPU time, '
                           'wall-clock backstop %g s; reported after a second run with twice the limit of the first); '
                           'the event loop is blocked for every connection' % (
                               ' + '.join(e.name for e in events), 'the CPU-time limit' if WD.fired == 'cpu' else 'the wall-clock backstop',
                               limit, limit * WD.WALL_FACTOR))
            return None

        def step(sock, chunk, also_disconnect=False, record=True):
            """Deliver one read (optionally with the disconnect queued right behind it); judge what it caused."""
            conn = since.setdefault(sock, {'since': b''})
            mark = len(rig.output(sock))
            nreq = len(wire.requests)
            ncl = wire.closed.count(sock)
            nfail = len(obs.failed)
            if also_disconnect:
                state['disconnected'] = True
                v = deliver(read(sock, chunk), disconnect(sock))
            else:
                v = deliver(read(sock, chunk))
            if v is not None:
                return v
            if rig.stuck:
                return bad('no-quiescence', 'the loop does not become quiescent after the read')
            delta = rig.output(sock)[mark:]
            newreq = [r for r in wire.requests[nreq:] if r['sock'] is sock]
            closes = wire.closed.count(sock) - ncl
            failed = obs.failed[nfail:]
            if any(r['method'] == 'HEAD' for r in newreq):
                return 'HEAD'
            clause, msg, resps = H.judge_output(delta)
            if clause:
                return bad(clause, msg)
            first_of_message = conn['since'] == b''
            conn['since'] += chunk
            many_ok = H.two_messages_possible(conn['since'])
            badcl = (H.bad_request_line(conn['since']) or H.bad_header_line(conn['since']) or H.bad_content_length(conn['since'])
                     or H.bad_chunk_size(conn['since']))
            if badcl and (resps or newreq):
                # "4xx/5xx for malformed input": the first message of this stretch must be refused, never dispatched
                classes.append('chunk-size-must-be-refused' if badcl.startswith('chunk') else 'content-length-must-be-refused' if badcl.startswith(('Content', 'conflicting')) else 'header-line-must-be-refused' if badcl.startswith('header') else 'request-line-must-be-refused')
                if newreq and (not resps or resps[0]['status'] < 400):
                    return bad('malformed-dispatched', 'request event dispatched for a message: %s: %r' % (badcl, conn['since'][:120]))
                if resps and resps[0]['status'] < 400:
                    return bad('malformed-accepted', 'message (%s) answered with %d: %r' % (badcl, resps[0]['status'], conn['since'][:120]))
            if not resps:
                # "simply closes (TLS handshake on a plain-text port)": only a read that STARTS a message can be a client hello
                if closes and not (first_of_message and H.looks_like_tls(chunk)):
                    return bad('close-without-response', 'connection closed without any response to %r (%s)' % (
                        chunk[:60], 'first read of the message' if first_of_message else 'a later read of a message already begun'))
                if not closes and not newreq and not also_disconnect and H.answer_due(conn['since']):
                    classes.append('answer-due')
                    return bad('stalled', 'complete header block without body framing received, yet no response, no close: %r' % (conn['since'][:120],))
            else:
                conn['since'] = b''
                if record and state['first'] is None:
                    state['first'] = resps[0]['status']
                final = [r for r in resps if r['status'] >= 200]       # 1xx interim responses do not answer the message
                if len(final) > 1 and not many_ok:
                    return bad('more-than-one-response', '%d responses (%s) to a read that cannot hold two messages' % (
                        len(final), ', '.join(str(r['status']) for r in final)))
                if resps[-1]['will_close'] and not closes:
                    return bad('close-missing', 'response %d announces close (will_close) but no close(sock) was fired' % resps[-1]['status'])
                rejected = [r['status'] for r in resps if r['status'] in H.REJECT_CODES]
                if rejected and len(newreq) > len(resps) - len(rejected):
                    return bad('request-after-reject', 'request event dispatched for a message answered with %d' % rejected[0])
                if newreq and 'read' in failed and len(resps) == 1:
                    return bad('request-after-reject', 'request event dispatched although the read handler failed')
            if len(newreq) > 1 and not many_ok:
                return bad('request-twice', '%d request events for a read that cannot hold two messages' % len(newreq))
            if closes:
                state['closed'] = True
            return None

        try:
            with driver.captured_stderr():
                if spec['psplit']:
                    v = step(p, PROBE[:PROBE_CUT], record=False)
                    if isinstance(v, Result):
                        return v
                if spec['pre']:
                    v = step(s, PRE, record=False)
                    if isinstance(v, Result):
                        return v
                if not state['closed']:
                    for i, chunk in enumerate(reads[:dc]):
                        v = step(s, chunk, also_disconnect=(spec['dcq'] and i == dc - 1))
                        if v == 'HEAD':
                            return Result(True, classes=classes + ['skipped:HEAD'])
                        if isinstance(v, Result):
                            return v
                        if state['closed']:
                            classes.append('closed-by-server')
                            break
                if not state['disconnected']:
                    v = deliver(disconnect(s))
                    if v is not None:
                        return v
                if rig.stuck:
                    return bad('no-quiescence', 'the loop does not become quiescent after disconnect')
                kept = _retained(http, s)
                if kept:
                    return bad('state-retained', 'after disconnect the HTTP component still holds the socket in %s' % ', '.join(kept))

                # liveness: a fresh (or half-started) connection is served
                nreq = len(wire.requests)
                v = step(p, PROBE[PROBE_CUT:] if spec['psplit'] else PROBE, record=False)
                if isinstance(v, Result):
                    return v if v.clause == 'loop-blocked' else bad('not-alive', 'probe connection: ' + v.msg[:300])
                out = rig.output(p)
                clause, msg, rs = H.judge_output(out)
                if clause or len(rs) != 1 or rs[0]['status'] != 200 or rs[0]['body'] != b'hello':
                    return bad('not-alive', 'a fresh connection does not get its 200 afterwards: %r' % (out[:80],))
                if len([q for q in wire.requests[nreq:] if q['sock'] is p]) != 1:
                    return bad('not-alive', 'probe request not dispatched exactly once')
                v = deliver(disconnect(p))
                if v is not None:
                    return v
                if _retained(http, p) or _retained(http, s):
                    return bad('state-retained', 'after both disconnects the HTTP component still holds %s' % (
                        _retained(http, p) + _retained(http, s)))
        finally:
            rig.cleanup()

        first = state['first']
        classes.append('out:%s' % ('wait' if first is None and not state['closed'] else 'close-only' if first is None else first))
        if obs.failed:
            classes.append('handler-raised')
        nontrivial = data != seed and first != 200
        if data == seed:
            classes.append('unmutated')
        return Result(True, nontrivial=nontrivial, classes=classes)


PROP = C14()
