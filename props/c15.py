"""C15 - every HTTP response is a well-formed, self-delimiting message with exact body.

Spec:
  {"reqs": [ {"kind": K, "a": int, "items": [int, ...], "ver": "1.0"|"1.1", "conn": null|"keep-alive"|"Keep-Alive"|"close",
              "method": "GET"|"HEAD", "stream": bool, "ctype": bool}, ... ]}        1-4 requests on ONE connection (thorough tier: 1-6)

Request i is sent only after the server became quiescent on request i-1 (no pipelining) and only if the server
did not close the connection.  Every request carries ``?i=<n>``; the generated controller looks its plan up
by that number and echoes it in the application header ``X-Req`` (so that an answer built from a stale request
is recognised whatever its body).

Kinds (what the application hands to circuits.web):
  str bytes empty big list           plain return values (``a``/``items`` index the pools below)
  yields                             handler is a generator function yielding items (str/bytes/'' mixed)
  file                               return open(path,'rb') (sizes 0,1,4095,4096,4097,10000); stream=false:
                                     response.body=f; response.stream=False; return response
  servefile                          Controller.serve_file(path)  (Content-Length + streamed body)
  gen                                response.body=<generator of items>; response.stream=<stream>; return response
  push                               terminal-example style: response.stream=True, return response with an empty
                                     body, the application then fires stream(response, chunk)... stream(response, None)
  resp                               response.body=<str|bytes|list>; return response
  pipe                               a file-like object whose read(n) may return FEWER than n bytes before EOF (pipe, socket
                                     file, decompressor): ``items`` script the piece sizes (PIPE_SIZES), one piece per read()
                                     call, at most n bytes; expected body = all pieces.  stream as for ``file``
  ownresp                            the handler answers with a Response object it created itself (``Response(self.request)``,
                                     a legal result type: HTTP hands a returned Response straight to the ``response`` event);
                                     served under its own path /o, so that every follow-up on the connection asks for a
                                     DIFFERENT path
  status                             response.status=<201,202,404,500,413,206>; return str
  nobody                             response.status=<204,304,101>; return '' (a=even) or an application body (a=odd)
  forbidden notfound none missing    self.forbidden() / self.notfound() / return None / no such path
  raisehttp raise                    raise NotFound()/Forbidden()/... ; raise ValueError
  yieldraise                         generator handler that yields items and then raises ValueError
  filterraise                        a 'request' handler in front of the dispatcher raises ValueError (a even) / Forbidden
  redirect raiseredirect             return self.redirect(url, code) / raise Redirect(url)
"""
import os
import tempfile

from hypothesis import strategies as st

from circuits import BaseComponent, handler
from circuits.web import Controller
from circuits.web.events import stream as stream_event
from circuits.web.wrappers import Response
from circuits.web.exceptions import Forbidden, Gone, NotFound, Redirect, ServiceUnavailable
from vlib import driver
from vlib.httprig import Rig, decode_responses
from vlib.runner import Prop, Result

STRS = ['hello', 'héllo wörld ✓', 'x', 'ab' * 150, '0\r\n\r\n']
BYTESES = [b'bytes\xff\x00\r\n', b'b', b'0\r\n\r\n', b'\xe9' * 33]
ITEMS = ['x', '', b'yz', 'é✓', b'\xff\xfe', 'c' * 5000, b'', 'tail\r\n']
FILE_SIZES = [0, 1, 4095, 4096, 4097, 10000]
PIPE_SIZES = [1, 700, 1000, 4096, 1500, 5000, 4095, 3000]   # bytes that "have arrived" when read() is called (same index range as ITEMS)
READ_SIZE = 4096                                            # circuits.net.sockets.BUFSIZE, the n of file_generator's read(n)
# every final status circuits knows a reason phrase for, except the body-less ones (NOBODY): "every status class"
STATUSES = [201, 202, 404, 500, 413, 206, 200, 203, 205, 207, 226, 300, 301, 302, 303, 305, 307, 400, 401, 402, 403, 405, 406,
            407, 408, 409, 410, 411, 412, 414, 415, 416, 417, 418, 422, 423, 424, 426, 449, 501, 502, 503, 504, 505, 507, 510]
NOBODY = [204, 304, 101]
HTTPEXC = [NotFound, Forbidden, Gone, ServiceUnavailable]
REDIR_CODES = [None, 301, 302, 303, 307]
BIG = ''.join(chr(65 + (i * 7 + i // 26) % 26) for i in range(100000))

BIG_BYTES = BIG.encode('utf-8')

KINDS = ['str', 'bytes', 'empty', 'big', 'list', 'yields', 'file', 'servefile', 'gen', 'push', 'resp', 'pipe', 'ownresp', 'status',
         'nobody', 'forbidden', 'notfound', 'none', 'missing', 'raisehttp', 'raise', 'yieldraise', 'filterraise', 'redirect', 'raiseredirect']
# kinds after which circuits always closes the connection are drawn less often, so that sequences go on
WEIGHTED = (['str', 'bytes', 'empty', 'list', 'yields', 'file', 'servefile', 'gen', 'push', 'resp', 'pipe', 'ownresp', 'status', 'nobody'] * 3
            + ['big', 'big'] + ['forbidden', 'notfound', 'none', 'missing', 'raisehttp', 'raise', 'yieldraise', 'filterraise', 'redirect', 'raiseredirect'])

FX = os.path.join(tempfile.gettempdir(), 'verif-c15-fixtures')


_FB = {}


def file_bytes(size):
    if size not in _FB:
        _FB[size] = bytes((i * 31 + size) % 251 for i in range(size))
    return _FB[size]


def file_path(size):
    return os.path.join(FX, 'f%d.bin' % size)


def file_offset(a):
    """Position the handler leaves its file object at before returning it (it sniffed a header, or serves a tail):
    the body the application produced is what the object yields from there."""
    size = FILE_SIZES[a % len(FILE_SIZES)]
    return min(size, [0, 0, 5, size // 2, size][(a // len(FILE_SIZES)) % 5])


def make_fixtures():
    """Small read-only files shared by all processes; created atomically, never modified."""
    os.makedirs(FX, exist_ok=True)
    for n in FILE_SIZES:
        p = file_path(n)
        want = file_bytes(n)
        try:
            with open(p, 'rb') as f:
                if f.read() == want:
                    continue
        except OSError:
            pass
        fd, tmp = tempfile.mkstemp(dir=FX)
        with os.fdopen(fd, 'wb') as f:
            f.write(want)
        os.replace(tmp, p)


def pipe_pieces(p):
    """The scripted arrivals of a pipe-like body: piece j is distinguishable from every other piece."""
    out = []
    for j, i in enumerate(p['items']):
        size = PIPE_SIZES[i % len(PIPE_SIZES)]
        out.append(bytes((x * 13 + j * 7 + size) % 251 for x in range(size)))
    return out


def pipe_reads(pieces, n=READ_SIZE):
    """Lengths of the non-empty results of successive read(n) calls on PipeLike(pieces)."""
    out = []
    for piece in pieces:
        while len(piece) > n:
            out.append(n)
            piece = piece[n:]
        out.append(len(piece))
    return out


class PipeLike:
    """read(n) hands out what has 'arrived' so far: one scripted piece per call, at most n bytes; b'' only at EOF."""

    def __init__(self, pieces):
        self.pieces = list(pieces)
        self.closed = False

    def read(self, n=-1):
        if not self.pieces:
            return b''
        piece = self.pieces.pop(0)
        if n is not None and 0 <= n < len(piece):
            piece, rest = piece[:n], piece[n:]
            self.pieces.insert(0, rest)
        return piece

    def close(self):
        self.closed = True


def own_body(p):
    a = p['a']
    return [STRS[a % len(STRS)], BYTESES[a % len(BYTESES)], items_of(p)][a % 3]


def enc(x):
    return x if isinstance(x, bytes) else x.encode('utf-8')


def items_of(p):
    return [ITEMS[i % len(ITEMS)] for i in p['items']]


class Root(Controller):
    """One generated application.  ``plan`` maps request number -> request spec."""

    def __init__(self, plan):
        super().__init__()
        self.plan = plan
        self.pushed = {}   # request number -> response object kept by the application (push kind)

    def _common(self, p, n):
        self.response.headers['X-Req'] = str(n)
        if p['ctype']:
            self.response.headers['Content-Type'] = 'text/plain; charset=utf-8'

    def r(self, i=None):
        n = int(i)
        p = self.plan[n]
        k, a = p['kind'], p['a']
        self._common(p, n)
        res = self.response
        if k in ('str', 'filterraise'):   # filterraise: the dispatcher still runs after the failed filter
            return STRS[a % len(STRS)]
        if k == 'bytes':
            return BYTESES[a % len(BYTESES)]
        if k == 'empty':
            return ''
        if k == 'big':
            return BIG
        if k == 'list':
            return items_of(p)
        if k == 'file':
            f = open(file_path(FILE_SIZES[a % len(FILE_SIZES)]), 'rb')
            f.seek(file_offset(a))
            if p['stream']:
                return f
            res.body = f
            res.stream = False
            return res
        if k == 'pipe':
            f = PipeLike(pipe_pieces(p))
            if p['stream']:
                return f
            res.body = f
            res.stream = False
            return res
        if k == 'servefile':
            out = self.serve_file(file_path(FILE_SIZES[a % len(FILE_SIZES)]))
            if not p['stream']:
                res.stream = False
            return out
        if k == 'gen':
            res.body = (x for x in items_of(p))
            res.stream = bool(p['stream'])
            return res
        if k == 'push':
            res.stream = True
            self.pushed[n] = res
            return res
        if k == 'resp':
            res.body = [STRS[a % len(STRS)], BYTESES[a % len(BYTESES)], items_of(p)][a % 3]
            return res
        if k == 'status':
            res.status = STATUSES[a % len(STATUSES)]
            return STRS[(a // 6) % len(STRS)]
        if k == 'nobody':
            res.status = NOBODY[(a // 2) % len(NOBODY)]
            return STRS[a % len(STRS)] if a % 2 else ''
        if k == 'forbidden':
            return self.forbidden()
        if k == 'notfound':
            return self.notfound()
        if k == 'none':
            return None
        if k in ('raisehttp', 'raise'):
            # what the handler had prepared before it failed: nothing / a Content-Length of its own / a file response
            prep = (a // 7) % 3
            if prep == 1:
                res.headers['Content-Length'] = '100000'
            elif prep == 2:
                self.serve_file(file_path(FILE_SIZES[4]))
        if k == 'raisehttp':
            raise HTTPEXC[a % len(HTTPEXC)]()
        if k == 'raise':
            raise ValueError('generated failure %d' % n)
        if k == 'redirect':
            return self.redirect('/t%d' % n, REDIR_CODES[a % len(REDIR_CODES)])
        if k == 'raiseredirect':
            raise Redirect('/t%d' % n)
        raise AssertionError('harness: unknown kind %r' % k)

    def o(self, i=None):
        # the application answers with a Response object of its own; the framework's self.response is never sent
        n = int(i)
        p = self.plan[n]
        res = Response(self.request)
        res.headers['X-Req'] = str(n)
        if p['ctype']:
            res.headers['Content-Type'] = 'text/plain; charset=utf-8'
        res.body = own_body(p)
        return res

    def y(self, event, i=None):
        # a generator handler runs after the expose() wrapper has returned, i.e. without self.request/self.response;
        # request and response are the first two arguments of the event
        n = int(i)
        p = self.plan[n]
        res = event.args[1]
        res.headers['X-Req'] = str(n)
        if p['ctype']:
            res.headers['Content-Type'] = 'text/plain; charset=utf-8'
        for x in items_of(p):
            yield x
        if p['kind'] == 'yieldraise':
            raise ValueError('generated failure %d' % n)


class Filter(BaseComponent):
    """A 'request' handler in front of the dispatcher (like a tool/auth component) that fails for kind filterraise."""

    channel = 'web'

    def __init__(self, plan):
        super().__init__()
        self.plan = plan

    @handler('request', priority=1.0)
    def _on_request(self, event, req, res, *a):
        qs = req.qs or ''
        if not qs.startswith('i=') or not qs[2:].isdigit():
            return
        n = int(qs[2:])
        p = self.plan.get(n)
        if p is None or p['kind'] != 'filterraise':
            return
        res.headers['X-Req'] = str(n)
        if p['ctype']:
            res.headers['Content-Type'] = 'text/plain; charset=utf-8'
        if p['a'] % 2:
            raise Forbidden()
        raise ValueError('generated filter failure %d' % n)


def expectation(p, n):
    """What the application produced: (allowed statuses, body bytes or None = framework text, header checks)."""
    k, a = p['kind'], p['a']
    # kinds whose answer is built by the framework from a failure: the application's headers need not survive
    # (X-Req is then optional, but must be right if present); Content-Type is only asserted for application bodies
    failure = k in ('raise', 'raisehttp', 'yieldraise', 'filterraise', 'raiseredirect', 'missing')
    hdrs = [('x-req?' if failure else 'x-req', str(n))]
    if p['ctype'] and k in ('str', 'bytes', 'empty', 'big', 'list', 'yields', 'file', 'gen', 'push', 'resp', 'pipe', 'ownresp', 'status'):
        hdrs.append(('content-type', 'text/plain; charset=utf-8'))
    st_, body = (200,), None
    if k == 'str':
        body = enc(STRS[a % len(STRS)])
    elif k == 'bytes':
        body = BYTESES[a % len(BYTESES)]
    elif k == 'empty':
        body = b''
    elif k == 'big':
        body = BIG_BYTES
    elif k in ('list', 'yields', 'gen', 'push'):
        body = b''.join(enc(x) for x in items_of(p))
        if k == 'yields' and not p['items']:
            # a generator handler that produced nothing: "no result" (404, like return None) and "empty result"
            # (200, empty body) are both faithful; what is demanded is that the request is answered
            st_, body = (200, 404), None
    elif k in ('file', 'servefile'):
        body = file_bytes(FILE_SIZES[a % len(FILE_SIZES)])[file_offset(a) if k == 'file' else 0:]
    elif k == 'pipe':
        body = b''.join(pipe_pieces(p))
    elif k == 'ownresp':
        v = own_body(p)
        body = b''.join(enc(x) for x in v) if isinstance(v, list) else enc(v)
    elif k == 'resp':
        v = [STRS[a % len(STRS)], BYTESES[a % len(BYTESES)], items_of(p)][a % 3]
        body = b''.join(enc(x) for x in v) if isinstance(v, list) else enc(v)
    elif k == 'status':
        st_ = (STATUSES[a % len(STATUSES)],)
        body = enc(STRS[(a // 6) % len(STRS)])
    elif k == 'nobody':
        st_ = (NOBODY[(a // 2) % len(NOBODY)],)
        body = b''
    elif k == 'forbidden':
        st_ = (403,)
    elif k in ('notfound', 'none'):
        st_ = (404,)
    elif k == 'missing':
        st_ = (404,)
    elif k == 'raisehttp':
        st_ = (HTTPEXC[a % len(HTTPEXC)].code,)
    elif k in ('raise', 'yieldraise'):
        st_ = (500,)
    elif k == 'filterraise':
        st_ = (403,) if a % 2 else (500,)
    elif k == 'redirect':
        c = REDIR_CODES[a % len(REDIR_CODES)]
        st_ = (c,) if c else (302, 303)
        hdrs.append(('location', '/t%d' % n))
    elif k == 'raiseredirect':
        st_ = (302, 303)
        hdrs.append(('location', '/t%d' % n))
    return st_, body, hdrs


def normalise(p):
    """Constructive resolution of combinations that are not inputs a caller can produce."""
    p = dict(p)
    if p['kind'] == 'push':
        p['method'] = 'GET'          # an application that pushes a body later is only meaningful for a body-carrying method
        p['items'] = [i for i in p['items'] if ITEMS[i % len(ITEMS)]]   # pushed chunks are never empty
    return p


def request_path(p):
    return {'yields': '/y', 'yieldraise': '/y', 'missing': '/nope', 'ownresp': '/o'}.get(p['kind'], '/r')


def request_bytes(p, n):
    path = request_path(p)
    s = '%s %s?i=%d HTTP/%s\r\nHost: a\r\n' % (p['method'], path, n, p['ver'])
    if p['conn']:
        s += 'Connection: %s\r\n' % p['conn']
    return (s + '\r\n').encode()


def wants_close(p):
    c = (p['conn'] or '').lower()
    return c == 'close' or (p['ver'] == '1.0' and c != 'keep-alive')


class C15(Prop):
    id = 'C15'
    rule = ('sequences of 1-4 (thorough: 1-6) requests on one connection of a socket-less circuits.web server; each request draws '
            'handler result kind (25 kinds: str/bytes/empty/100 kB/list/yielding handler/file sizes 0..10000 read from the start, an offset or the end/serve_file/'
            'pipe-like stream with scripted short reads/application-made Response object (own path /o)/'
            'generator body/pushed stream/explicit Response/status with body/204,304,101 with and without body/errors/'
            'raise, also after yields or after having preset Content-Length / called serve_file / redirect; status = every final code with a reason phrase) x HTTP 1.0|1.1 x Connection absent|keep-alive|close x GET|HEAD x stream on|off x '
            'app Content-Type; raw bytes per request decoded by http.client; non-trivial = at least 2 requests '
            'answered on the connection, or a response that is chunked, close-delimited, written in more than two '
            'pieces, or body-less by rule (HEAD/1xx/204/304); distinct = distinct spec hash')
    assumptions = ('requests are not pipelined: request i+1 is sent after the server is quiescent on request i',
                   'text of framework-generated error/redirect pages is not asserted (only status, framing, app headers)',
                   'the server may always choose to close; only "announced <=> done" and "client asked for close => closed" are asserted',
                   'a Response object made by the application carries the application\'s own close decision: "client asked for close => '
                   'closed" is not asserted for it (announced <=> done is)',
                   'response.stream=True is only combined with iterator bodies (file, generator, pushed chunks), as in wsgi.py / examples')
    budget = {'quick': (1500, 4), 'thorough': (50000, 16)}

    def setup(self):
        driver.quiet_process()
        make_fixtures()

    def strategy(self, tier):
        req = st.fixed_dictionaries({
            'kind': st.sampled_from(WEIGHTED),
            'a': st.one_of(st.integers(0, 29), st.integers(0, 6 * len(STATUSES) - 1)),
            'items': st.lists(st.integers(0, len(ITEMS) - 1), max_size=5 if tier == 'quick' else 8),
            'ver': st.sampled_from(['1.1', '1.1', '1.0']),
            'conn': st.sampled_from([None, None, 'keep-alive', 'keep-alive', 'Keep-Alive', 'close']),
            'method': st.sampled_from(['GET', 'GET', 'HEAD']),
            'stream': st.booleans(),
            'ctype': st.booleans(),
        })
        return st.fixed_dictionaries({'reqs': st.lists(req, min_size=1, max_size=4 if tier == 'quick' else 6)})

    def enumerate(self, tier):
        """Finite product: every kind (representative parameters) x version x Connection x method x stream,
        each followed by a plain GET on the same connection (sent if the server keeps the connection)."""
        seqs = [[], [1], [0, 1, 2], [1, 0], [5, 6, 4]]
        variants = {
            'str': [{'a': 0}, {'a': 1}], 'bytes': [{'a': 0}, {'a': 2}], 'empty': [{}], 'big': [{}],
            'list': [{'items': i} for i in seqs[:4]],
            'yields': [{'items': i} for i in seqs],
            'yieldraise': [{'items': []}, {'items': [0]}],
            'file': [{'a': i, 'stream': b} for i in list(range(len(FILE_SIZES))) + [14, 17, 22, 23, 29] for b in (True, False)],
            'servefile': [{'a': i, 'stream': b} for i in (0, 3, 5) for b in (True, False)],
            'gen': [{'items': i, 'stream': b} for i in seqs for b in (True, False)],
            'push': [{'items': i} for i in ([], [0], [0, 2], [5, 4])],
            'resp': [{'a': 0}, {'a': 1}, {'a': 2, 'items': [0, 1, 2]}],
            'pipe': [{'items': i, 'stream': b} for i in ([], [0], [3], [5], [1, 2], [3, 1, 3], [2, 4, 3, 1, 7], [6, 5, 0]) for b in (True, False)],
            'ownresp': [{'a': 0}, {'a': 1}, {'a': 2, 'items': [0, 1, 2]}, {'a': 2, 'items': []}],
            'status': [{'a': i} for i in range(len(STATUSES))],
            'nobody': [{'a': i} for i in range(2 * len(NOBODY))],
            'raisehttp': [{'a': 0}, {'a': 1}, {'a': 7}, {'a': 14}, {'a': 9}, {'a': 16}],
            'raise': [{'a': 0}, {'a': 7}, {'a': 14}],
            'filterraise': [{'a': 0}, {'a': 1}],
            'redirect': [{'a': i} for i in range(len(REDIR_CODES))],
        }
        base = {'kind': 'str', 'a': 0, 'items': [], 'ver': '1.1', 'conn': None, 'method': 'GET', 'stream': False, 'ctype': False}
        out = []
        for k in KINDS:
            for v in variants.get(k, [{}]):
                for ver in ('1.1', '1.0'):
                    for conn in (None, 'keep-alive', 'close'):
                        for m in ('GET', 'HEAD'):
                            first = dict(base, kind=k, ver=ver, conn=conn, method=m, **v)
                            out.append({'reqs': [first, dict(base, a=2, ver=ver, conn=conn)]})
        return out

    # ------------------------------------------------------------------ run
    def execute(self, spec):
        if not spec['reqs']:
            return Result(True)
        return self._judge(*self._run(spec))

    def _run(self, spec):
        reqs = [normalise(p) for p in spec['reqs']]
        plan = dict(enumerate(reqs))
        segs = []          # (request number, bytes written for it, number of writes, closed afterwards)
        escaped = None
        with driver.captured_stderr():
            root = Root(plan)
            rig = Rig(controllers=[root], extra=[Filter(plan)])
            try:
                s = rig.sock(1)
                wire = rig.wire
                for n, p in enumerate(reqs):
                    w0 = len(wire.out.get(s, []))
                    try:
                        rig.feed(s, request_bytes(p, n))
                        if p['kind'] == 'push' and n in root.pushed:
                            res = root.pushed.pop(n)
                            for x in items_of(p):
                                rig.srv.fire(stream_event(res, x), 'web')
                                rig.settle()
                            rig.srv.fire(stream_event(res, None), 'web')
                            rig.settle()
                    except Exception as e:  # noqa: anything escaping tick() is behaviour of the code under test
                        escaped = '%s: %s' % (type(e).__name__, e)
                    ws = wire.out.get(s, [])[w0:]
                    segs.append((n, b''.join(ws), len(ws), rig.closed(s)))
                    if escaped or rig.stuck or rig.closed(s):
                        break
                order = [(k, ln) for k, so, ln in wire.order if so is s]
                stuck = rig.stuck
            finally:
                rig.cleanup()
        return reqs, segs, order, escaped, stuck

    # ------------------------------------------------------------------ oracle
    def _judge(self, reqs, segs, order, escaped, stuck):
        def bad(clause, n, msg):
            p = reqs[n]
            return Result(False, clause, 'request #%d (%s %s HTTP/%s conn=%s stream=%s a=%d items=%r): %s' % (
                n, p['method'], p['kind'], p['ver'], p['conn'], p['stream'], p['a'], p['items'], msg))

        last = segs[-1][0]
        if escaped:
            return bad('exception-escaped', last, escaped)
        if stuck:
            return bad('no-quiescence', last, 'server still busy after 400 ticks')

        classes = []
        nontrivial = False
        for n, raw, nwrites, closed in segs:
            p = reqs[n]
            statuses, body, hdrs = expectation(p, n)
            if not raw:
                return bad('no-response', n, 'nothing was written for this request (closed=%s)' % closed)
            dec, rest = decode_responses(raw, [p['method']])
            r = dec[0] if dec else None
            if r is None or isinstance(r, tuple):
                return bad('undecodable', n, 'http.client cannot decode the response: %r; first bytes %r' % (r, raw[:120]))
            if rest:
                return bad('trailing-bytes', n, '%d bytes follow the response (status %d): %r' % (len(rest), r['status'], rest[:80]))
            if r['status'] not in statuses:
                return bad('status', n, 'status %d, application produced %r' % (r['status'], statuses))
            got = dict(r['headers'])
            names = [k for k, _ in r['headers']]
            for k, v in hdrs:
                if k.endswith('?'):
                    k = k[:-1]
                    if k in got and (names.count(k) != 1 or got[k] != v):
                        return bad('header', n, 'header %s is %r, this request is number %r (answer built from another request)' % (k, got[k], v))
                elif k == 'location':
                    if not got.get(k, '').endswith(v):
                        return bad('header', n, 'Location %r does not point to %r' % (got.get(k), v))
                elif names.count(k) != 1 or got.get(k) != v:
                    return bad('header', n, 'header %s is %r (x%d), application set %r' % (k, got.get(k), names.count(k), v))
            if names.count('content-length') > 1:
                return bad('framing-headers', n, 'Content-Length sent %d times' % names.count('content-length'))
            if r['chunked'] and r['length_header'] is not None:
                return bad('framing-headers', n, 'both Transfer-Encoding: chunked and Content-Length: %s' % r['length_header'])
            if r['chunked'] and p['ver'] == '1.0':
                return bad('chunked-to-1.0', n, 'chunked transfer coding sent to an HTTP/1.0 client')
            bodyless = p['method'] == 'HEAD' or r['status'] in (204, 304) or 100 <= r['status'] < 200
            if bodyless:
                # http.client does not read a body here; `rest` above is what the server sent after the header block
                pass
            elif p['kind'] == 'yields' and not p['items'] and r['status'] == 200 and r['body']:
                return bad('body', n, 'body of %d bytes, application produced nothing' % len(r['body']))
            elif body is not None and r['body'] != body:
                return bad('body', n, 'body differs: got %d bytes %r..., application produced %d bytes %r...' % (
                    len(r['body']), r['body'][:40], len(body), body[:40]))
            if r['will_close'] != closed:
                return bad('close-mismatch', n, 'response %s close (version %s, Connection: %r, length %r, chunked %s) but the server %s the connection' % (
                    'announces' if r['will_close'] else 'does not announce', r['version'], got.get('connection'), r['length_header'], r['chunked'],
                    'closed' if closed else 'did not close'))
            if wants_close(p) and not closed and p['kind'] != 'ownresp':
                return bad('close-wish-ignored', n, 'client asked for a non-persistent connection, server kept it open')

            framing = ('none' if bodyless else 'chunked' if r['chunked'] else 'length' if r['length_header'] is not None else 'close')
            classes += ['kind:' + p['kind'], 'framing:' + framing, 'method:' + p['method'], 'http:' + p['ver'],
                        'conn:%s' % (p['conn'] or 'absent').lower(), 'status:%dxx' % (r['status'] // 100)]
            if p['kind'] in ('file', 'servefile', 'gen', 'pipe'):
                classes.append('stream:' + ('on' if p['stream'] else 'off'))
            if p['kind'] == 'pipe' and not bodyless:
                reads = pipe_reads(pipe_pieces(p))
                classes.append('pipe:short-read-before-eof' if any(x < READ_SIZE for x in reads[:-1]) else 'pipe:reads<=1-or-all-full')
            if n > 0 and any(q['kind'] == 'ownresp' for q in reqs[:n]):
                classes.append('follow-up-after-ownresp')
                if request_path(p) != '/o':
                    classes.append('follow-up-after-ownresp:other-path')
            if not closed:
                classes.append('kept-alive')
            if n > 0:
                classes.append('follow-up-answered')
                if reqs[n - 1]['method'] == 'HEAD':
                    classes.append('follow-up-after-HEAD')
            if framing in ('chunked', 'close', 'none') or nwrites > 2:
                nontrivial = True

        # the bytes of a connection: nothing may be written after the close event
        seen_close = False
        for k, ln in order:
            if k == 'close':
                seen_close = True
            elif seen_close:
                return bad('write-after-close', last, 'a write of %d bytes follows close(sock)' % ln)
        if len(segs) >= 2:
            nontrivial = True
        classes.append('answered:%d' % len(segs))
        return Result(True, nontrivial=nontrivial, classes=classes)


PROP = C15()
