"""C16 — static files: only contents from inside the document root; exact byte ranges (RFC 7233).

Spec (all keys optional except what differs from the defaults; plain JSON):
  {"mode": "http"|"direct",      delivery: raw request bytes through HTTP, or a `request` event handed to Static
   "disp": bool,                 a Dispatcher component is registered as well
   "layout": 0|1,                docroot/sibling names: 0 = root/rootbeer, 1 = "my root"/"my root2"
   "droot": 0..3,                spelling of the docroot argument (canonical, trailing /, /./, /sibling/../)
   "mount": 0..4,                index into MOUNTS (None, '/', '/static', '/s/t', '/static/')
   "pfx": bool,                  request path starts with the mount prefix
   "lead": bool,                 request path starts with '/'
   "listing": bool,              Static(dirlisting=…)
   "segs": [str, …],             path segments, joined by '/'; placeholders {ROOT} {SIB} {ABSPARENT} {ABSROOT}
   "range": null|str,            literal Range header value.  Mode http sends U+0080..U+00FF as the latin-1 byte and any
                                 higher character UTF-8 encoded, as a client would (the server then reads latin-1 text,
                                 which is what the oracle judges); mode direct hands the str over as it is
   "proto": "1.1"|"1.0"}

The denotation of a path (what may be served) and the RFC 7233 judgement are computed from the spec and
from a table of the scratch tree built in setup(); the oracle never touches the file system.
"""
import atexit
import hashlib
import html
import os
import re
import shutil
import subprocess
import sys
import tempfile
from urllib.parse import quote, unquote_to_bytes

from hypothesis import strategies as st

from circuits.web.dispatchers.static import Static
from circuits.web.events import request as request_event
from circuits.web.exceptions import HTTPException
from circuits.web.headers import Headers
from circuits.web.wrappers import Request, Response
from vlib import driver
from vlib.httprig import Rig, decode_responses
from vlib.runner import Prop, Result

MARK = b'C16MARK-OUT'
MOUNTS = [None, '/', '/static', '/s/t', '/static/']
LAYOUT_NAMES = [('root', 'rootbeer'), ('my root', 'my root2')]
SIZES = {'f0': 0, 'f1': 1, 'f10': 10, 'f4097': 4097}
DEFAULTS = ('index.html', 'index.xhtml')

_ST = {}          # scratch tree, shared read-only by forked workers; removed by the creating process at exit
_AUD = {'on': False, 'base': None, 'seen': [], 'installed': False}


# --------------------------------------------------------------------------------------------- scratch tree
def _stream(tag, n):
    out = b''
    i = 0
    while len(out) < n:
        out += hashlib.sha256(b'%s:%d' % (tag, i)).digest()
        i += 1
    return out[:n]


def _inside_files(rootname, sibname):
    """relative name (bytes) -> content of every file inside the document root."""
    f = {}

    def put(rel, extra=b''):
        f[rel] = b'in:' + rel + b':' + hashlib.sha256(rel).hexdigest().encode() + extra + b'\n'

    for rel in ('a.txt', 'secret.txt', 'sub/b.txt', 'sub/a.txt', 'sub/deep/c.txt', 'idx/index.html', 'idx/z.txt',
                'a b.txt', '%61.txt', '%2e%2e/x.txt', '..\\secret.txt', '.hidden', 'ü.txt'):
        put(rel.encode('utf-8'))
    put(sibname.encode() + b'/s.txt')
    put(rootname.encode() + b'/a.txt')
    for name, n in SIZES.items():
        f[name.encode()] = _stream(name.encode(), n)
    return f


def _build_layout(base, k):
    rootname, sibname = LAYOUT_NAMES[k]
    top = os.path.join(base, 'L%d' % k)
    parent = os.path.join(top, 'parent')
    docroot = os.path.join(parent, rootname)
    counter = [0]

    def outside(path, minlen=0):
        counter[0] += 1
        data = MARK + b'-%d-%d-' % (k, counter[0])
        data += b'x' * max(0, minlen - len(data))
        os.makedirs(os.path.dirname(path), exist_ok=True)
        with open(path, 'wb') as fh:
            fh.write(data + b'\n')

    inside = _inside_files(rootname, sibname)
    for rel, data in inside.items():
        p = os.path.join(os.fsencode(docroot), rel)
        os.makedirs(os.path.dirname(p), exist_ok=True)
        with open(p, 'wb') as fh:
            fh.write(data)
    os.makedirs(os.path.join(docroot, 'empty'), exist_ok=True)
    # the parent directory: same names as inside, plus a marker in a file NAME (a listing would leak it)
    for rel in ('secret.txt', 'a.txt', 'index.html', 'f10', 'f4097', 'sub/b.txt', 'idx/index.html',
                MARK.decode() + '-NAME-%d.txt' % k):
        outside(os.path.join(parent, rel), 64)
    # siblings whose names extend the docroot's name
    for sib in (sibname, rootname + '.bak', rootname + '2'):
        for rel in ('s.txt', 'a.txt', 'index.html', 'f10', 'sub/b.txt', MARK.decode() + '-SIBNAME-%d.txt' % k):
            outside(os.path.join(parent, sib, rel), 64)
    for rel in ('secret.txt', 'secret0.txt', 'a.txt', 'index.html'):
        outside(os.path.join(top, rel), 64)

    dirs = {b'': set()}
    for rel in list(inside) + [b'empty/']:
        parts = rel.split(b'/')
        for i in range(len(parts)):
            d = b'/'.join(parts[:i])
            dirs.setdefault(d, set())
            if parts[i]:
                dirs[d].add(parts[i])
    for d in list(dirs):
        if d:
            dirs.setdefault(d, set())
    return {'k': k, 'top': top, 'parent': parent, 'docroot': docroot, 'docroot_b': os.fsencode(docroot),
            'root': rootname, 'sib': sibname, 'files': inside, 'dirs': dirs,
            'spellings': [docroot, docroot + '/', os.path.join(parent, '.', rootname),
                          os.path.join(parent, sibname, '..', rootname)]}


_REAPER = "import sys, shutil\nsys.stdin.buffer.read()\nshutil.rmtree(sys.argv[1], ignore_errors=True)\n"


def _cleanup(pid, base):
    if os.getpid() == pid:
        shutil.rmtree(base, ignore_errors=True)
        r = _ST.get('reaper')
        if r is not None:
            try:
                r.stdin.close()
                r.wait(5)
            except Exception:
                pass


def _ensure_tree():
    """One scratch tree per check process (forked workers share it read-only).

    The runner leaves through os._exit(), which skips atexit: a tiny helper process blocks on a pipe whose write end
    is held by this process and its forked workers and removes the tree at EOF, i.e. when the last of them is gone
    (also after a kill). atexit does the same for interpreters that exit normally.
    """
    if _ST and os.path.isdir(_ST['base']):
        return
    base = os.path.realpath(tempfile.mkdtemp(prefix='c16-'))
    for bad in ('/repo', '/verif'):
        if base == bad or base.startswith(bad + os.sep):
            shutil.rmtree(base, ignore_errors=True)
            base = os.path.realpath(tempfile.mkdtemp(prefix='c16-', dir='/tmp'))
    try:
        reaper = subprocess.Popen([sys.executable, '-S', '-E', '-c', _REAPER, base], stdin=subprocess.PIPE,
                                  stdout=subprocess.DEVNULL, stderr=subprocess.DEVNULL, cwd='/',
                                  start_new_session=True, close_fds=True)
    except Exception:
        reaper = None
    _ST.clear()
    _ST.update({'base': base, 'pid': os.getpid(), 'reaper': reaper,
                'layouts': [_build_layout(base, k) for k in range(len(LAYOUT_NAMES))]})
    _AUD['base'] = base
    atexit.register(_cleanup, os.getpid(), base)


def _audit(event, args):
    if not _AUD['on']:
        return
    if event == 'open' or event == 'os.listdir' or event == 'os.scandir':
        p = args[0] if args else None
        if isinstance(p, bytes):
            p = os.fsdecode(p)
        if isinstance(p, str) and _AUD['base'] and _AUD['base'] in p:
            _AUD['seen'].append(p)


# --------------------------------------------------------------------------------------------- denotation
_PLAIN = re.compile(r'^[A-Za-z0-9][A-Za-z0-9._-]*$')


def _expand(seg, lay):
    return (seg.replace('{ROOT}', quote(lay['root'])).replace('{SIB}', quote(lay['sib']))
            .replace('{ABSPARENT}', lay['parent']).replace('{ABSROOT}', lay['docroot']))


def build_path(spec, lay):
    mount = MOUNTS[spec.get('mount', 0) % len(MOUNTS)]
    segs = [_expand(s, lay) for s in spec.get('segs', [])]
    body = '/'.join(segs)
    lead = spec.get('lead', True)
    if mount is not None and spec.get('pfx', True):
        return mount.rstrip('/') + '/' + body, mount
    if mount is not None or lead:
        return '/' + body, mount
    return body, mount


def denote(path, mount, lay):
    """Candidate targets (bytes, relative to the docroot, or None when outside) the request path may denote.

    Percent-decoding once, then lexical normalisation below the document root. A decoded path that begins with
    '/' is additionally read as that absolute path (only ever acceptable when it lands inside the root).
    Returns (handled, [rel, …], escapes) — rel values only for targets inside the root.
    """
    if mount is not None:
        if not path.startswith(mount):
            return False, [], False
        rest = path[len(mount):]
    else:
        rest = path
    try:
        dec = unquote_to_bytes(rest.strip('/'))
    except Exception:
        return True, [], False
    root = lay['docroot_b']
    cands = [os.path.normpath(root + b'/' + dec)]
    if dec.startswith(b'/'):
        cands.append(os.path.normpath(dec))
    rels = []
    escapes = False
    for t in cands:
        if b'\0' in t:
            continue        # no such file anywhere
        if t == root:
            rels.append(b'')
        elif t.startswith(root + b'/'):
            rels.append(t[len(root) + 1:])
        else:
            escapes = True
    return True, rels, escapes


_LI = re.compile(rb'<li><a href="([^"]*)">([^<]*)</a></li>')


def listing_matches(body, entries):
    names = set()
    for _href, name in _LI.findall(body):
        n = html.unescape(name.decode('utf-8', 'replace'))
        if n == '..':
            continue
        names.add(n.rstrip('/').encode('utf-8'))
    if b'<h1>Index of' not in body and not names:
        return False
    visible = {e for e in entries if not e.startswith(b'.')}
    return visible <= names <= set(entries)


# --------------------------------------------------------------------------------------------- RFC 7233
_TOKEN_EQ = re.compile(r"([!#$%&'*+\-.^_`|~0-9A-Za-z]+)=(.*)", re.S)
_FL = re.compile(r'([0-9]+)-([0-9]*)')
_SUF = re.compile(r'-([0-9]+)')


def parse_range(value, size):
    """-> dict(klass='valid'|'malformed'|'ambiguous', resolved=[(s,e)…], nspecs, feats=set())

    'ambiguous' = not the RFC's grammar, but a lenient recipient could read it as a range set (white space inside
    a spec, other letter case of the unit, empty list elements, '+'/'_' in numbers): only the unconditional
    clauses are asserted for those.
    """
    feats = set()
    if any(c.isdigit() and not c.isascii() for c in value):
        feats.add('non-ascii-digit')      # never DIGIT: such a spec is malformed by the regexes below ([0-9] is ASCII only)
    compact = value.replace(' ', '').replace('\t', '')
    amb = compact != value
    m = _TOKEN_EQ.fullmatch(compact)
    if not m:
        return {'klass': 'malformed', 'resolved': [], 'nspecs': 0, 'feats': {'no-unit'}}
    unit, rs = m.groups()
    if unit != 'bytes':
        if unit.lower() == 'bytes':
            amb = True
        else:
            return {'klass': 'malformed', 'resolved': [], 'nspecs': 0, 'feats': {'other-unit'}}
    elems = rs.split(',')
    if any(e == '' for e in elems):
        amb = True
        elems = [e for e in elems if e]
        if not elems:
            return {'klass': 'malformed', 'resolved': [], 'nspecs': 0, 'feats': {'empty-set'}}
    malformed = False
    resolved = []
    for e in elems:
        e2 = e
        if not (_FL.fullmatch(e) or _SUF.fullmatch(e)):
            e2 = re.sub(r'(^|-)\+(?=[0-9])', r'\1', e.replace('_', ''))
            if e2 != e and (_FL.fullmatch(e2) or _SUF.fullmatch(e2)):
                amb = True
            else:
                malformed = True
                feats.add('non-numeric')
                continue
        m1 = _FL.fullmatch(e2)
        if m1:
            first = int(m1.group(1))
            if m1.group(2) == '':
                feats.add('open')
                last = size - 1
            else:
                last = int(m1.group(2))
                if last < first:
                    feats.add('reversed')
                    malformed = True
                    continue
                if last >= size:
                    feats.add('out-of-bounds')
                    last = size - 1
            if first >= size:
                feats.add('out-of-bounds')
                continue
            resolved.append((first, last))
        else:
            n = int(_SUF.fullmatch(e2).group(1))
            feats.add('suffix')
            if n > size:
                feats.add('out-of-bounds')
            if n == 0 or size == 0:
                continue
            resolved.append((max(0, size - n), size - 1))
    klass = 'malformed' if malformed else ('ambiguous' if amb else 'valid')
    return {'klass': klass, 'resolved': resolved, 'nspecs': len(elems), 'feats': feats}


_CR = re.compile(r'bytes (\d+)-(\d+)/(\d+)')


def _parts_of_206(resp):
    """-> list of (s, e, total, data) or (None, reason)."""
    hdr = dict(resp['headers'])
    ctype = hdr.get('content-type', '')
    body = resp['body']
    if ctype.lower().startswith('multipart/byteranges'):
        mb = re.search(r'boundary="?([^";]+)"?', ctype)
        if not mb:
            return None, 'multipart without boundary'
        delim = b'--' + mb.group(1).encode('latin-1')
        pos = body.find(delim)
        parts = []
        if pos < 0:
            return None, 'no boundary in multipart body'
        while True:
            pos += len(delim)
            if body[pos:pos + 2] == b'--':
                break
            if body[pos:pos + 2] != b'\r\n':
                return None, 'bad boundary line'
            hend = body.find(b'\r\n\r\n', pos)
            if hend < 0:
                return None, 'part without header end'
            heads = body[pos + 2:hend].decode('latin-1')
            m = None
            for line in heads.split('\r\n'):
                k, _, v = line.partition(':')
                if k.strip().lower() == 'content-range':
                    m = _CR.fullmatch(v.strip())
            if not m:
                return None, 'part without valid Content-Range: %r' % heads[:80]
            s, e, total = map(int, m.groups())
            n = e - s + 1
            if n <= 0:
                return None, 'part Content-Range %s is empty or reversed' % m.group(0)
            data = body[hend + 4:hend + 4 + n]
            pos = hend + 4 + n
            parts.append((s, e, total, data))
            if body[pos:pos + 2] != b'\r\n' or body[pos + 2:pos + 2 + len(delim)] != delim:
                return None, 'part %d-%d is not followed by a boundary (body shorter/longer than announced)' % (s, e)
            pos += 2
        return parts, ''
    cr = hdr.get('content-range')
    if cr is None:
        return None, '206 without Content-Range'
    m = _CR.fullmatch(cr.strip())
    if not m:
        return None, 'Content-Range %r is not "bytes s-e/len"' % cr
    s, e, total = map(int, m.groups())
    return [(s, e, total, body)], ''


def judge_file(resp, data, rng, proto):
    """Is this 200/206/416 response a correct answer for the file `data` and the Range header `rng`?"""
    size = len(data)
    stc = resp['status']
    hdr = dict(resp['headers'])
    info = parse_range(rng, size) if rng is not None else None
    parts = None
    if stc == 200:
        if resp['body'] != data:
            return False, 'content-mismatch', '200 body (%d bytes) differs from the file (%d bytes)' % (len(resp['body']), size)
    elif stc == 206:
        parts, why = _parts_of_206(resp)
        if parts is None:
            return False, 'range-bad-206', why
        for s, e, total, body in parts:
            if total != size or not (0 <= s <= e < size):
                return False, 'range-beyond-file', 'Content-Range bytes %d-%d/%d for a file of %d bytes' % (s, e, total, size)
            if body != data[s:e + 1]:
                return False, 'range-wrong-bytes', 'body of part %d-%d (%d bytes) is not file[%d:%d]' % (s, e, len(body), s, e + 1)
    elif stc == 416:
        cr = hdr.get('content-range')
        if cr is not None and cr.strip() != 'bytes */%d' % size:
            return False, 'range-bad-416', '416 with Content-Range %r for a file of %d bytes' % (cr, size)
    else:
        return False, 'unexpected-status', 'status %d' % stc

    if info is None:
        if stc != 200:
            return False, 'range-unrequested', 'status %d without a Range header' % stc
        return True, '', ''
    if stc == 200 and proto == '1.0':
        return True, '', ''
    k = info['klass']
    if k == 'ambiguous':
        return True, '', ''
    if k == 'malformed':
        if stc == 206:
            return False, 'range-206-for-malformed', 'malformed Range %r (%s) answered 206 %r' % (
                rng, ','.join(sorted(info['feats'])), hdr.get('content-range'))
        return True, '', ''
    res = info['resolved']
    if not res:
        if stc == 206:
            return False, 'range-206-unsatisfiable', 'unsatisfiable Range %r answered 206 %r' % (rng, hdr.get('content-range'))
        return True, '', ''
    if info['nspecs'] == 1:
        if stc != 206:
            return False, 'range-not-served', 'satisfiable Range %r on %d bytes answered %d' % (rng, size, stc)
        got = [(s, e) for s, e, _, _ in parts]
        if got != res:
            return False, 'range-wrong-range', 'Range %r on %d bytes: expected %r, got %r' % (rng, size, res, got)
        return True, '', ''
    if stc == 206:
        want = set()
        for s, e in res:
            want.update(range(s, e + 1))
        have = set()
        for s, e, _, _ in parts:
            have.update(range(s, e + 1))
        if want != have:
            return False, 'range-wrong-set', 'Range %r on %d bytes: parts %r do not cover exactly %r' % (
                rng, size, [(s, e) for s, e, _, _ in parts], res)
    return True, '', ''


# --------------------------------------------------------------------------------------------- strategy pieces
HOSTILE = ['..', '..', '..', '.', '', '%2e%2e', '%2E%2E', '.%2e', '%2e.', '%2e', '..%2f', '..%2F..', '%2f', '%2f..',
           '%252e%252e', '%252e%252e%252f', '..\\', '%5c..', '..%5c', '..\\secret.txt', '...', '..;', '%00', '..%00',
           '%c0%ae%c0%ae', '%ff', '{ROOT}', '{SIB}', '{SIB}', '{ROOT}.bak', '{ROOT}2', '%2f{ABSPARENT}', '%2f{ABSROOT}',
           '%2f.%2f{ABSPARENT}', '%2f.%2f{ABSROOT}', '{ABSPARENT}', '..%2f{SIB}', '..%2f{ROOT}', '%2e%2e%2f{SIB}%2fs.txt', '..%2fsecret.txt', '%2e%2e%2fsecret.txt']
BENIGN = ['a.txt', 'a.txt', 'secret.txt', 'sub', 'sub', 'b.txt', 'deep', 'c.txt', 'idx', 'index.html', 'z.txt', 's.txt',
          'empty', 'f0', 'f1', 'f10', 'f4097', '.hidden', 'nonexistent', 'secret0.txt',
          'a%20b.txt', 'a b.txt', '%C3%BC.txt', '%c3%bc.txt', '%61.txt', '%2561.txt', 'x.txt', 'A.TXT']
RANGE_NUM = ['0', '0', '1', '2', '5', '9', '10', '11', '15', '4095', '4096', '4097', '4098', '99999999999999999999', '007']
RANGE_ODD = ['abc', '-1', '+1', '1_0', '0x1', '1.5', ' 3', '\t4', '1e1']
# positions written with characters that are digits for str.isdigit()/int() but not DIGIT = %x30-39 (RFC 7233 2.1):
# latin-1 superscripts (isdigit() true, int() refuses), Unicode decimal digits (int() accepts), circled/fraction forms
RANGE_NONASCII = ['\xb2', '\xb3', '\xb9', '1\xb2', '\u0663', '\uff15', '1\u0663', '\u0661\u0660', '\u2460', '\xbd']


def wire_bytes(value):
    """Header value as bytes on the wire: latin-1 where possible, UTF-8 above U+00FF."""
    return b''.join(bytes([ord(c)]) if ord(c) < 256 else c.encode('utf-8') for c in value)


def _range_strategy():
    num = st.sampled_from(RANGE_NUM)
    tok = st.one_of(num, num, num, num, num, st.just(''), st.sampled_from(RANGE_ODD), st.sampled_from(RANGE_NONASCII))
    good = st.one_of(st.tuples(num, st.just('-'), num), st.tuples(num, st.just('-'), st.just('')),
                     st.tuples(st.just(''), st.just('-'), num)).map(''.join)
    odd = st.tuples(tok, st.sampled_from(['-'] * 6 + ['--', ' - ', '']), tok).map(''.join)
    spec = st.one_of(good, good, good, odd)
    unit = st.sampled_from(['bytes'] * 14 + ['Bytes', 'BYTES', 'items', 'byte', '', 'bytes '])
    eq = st.sampled_from(['='] * 14 + ['', ' = ', '=='])
    sep = st.sampled_from([','] * 6 + [', ', ' ,', ',,', ';'])
    return st.tuples(unit, eq, st.lists(spec, min_size=1, max_size=5), sep).map(
        lambda t: t[0] + t[1] + t[3].join(t[2]))


def _enum_values(size, level):
    if level == 'full':
        vals = ['', '0', '1', str(size - 1), str(size), str(size + 5), 'abc']
    elif level == 'mid':
        vals = ['', '0', str(size - 1), str(size), str(size + 5), 'abc']
    else:
        vals = ['', '0', str(size - 1), str(size + 5)]
    out = []
    for v in vals:
        if not v.startswith('-') and v not in out:
            out.append(v)
    return out


def _enum_specs(size, level):
    vals = _enum_values(size, level)
    specs = [f + '-' + l for f in vals for l in vals]
    specs += ['abc', '--5', '0--5'] if level != 'full' else ['abc', '', '1-2-3', ' 0 - 3', '--5', '0--5']
    return specs


class C16(Prop):
    id = 'C16'
    rule = ('(a) hypothesis: request paths of 0-6 segments over an alphabet of hostile (.., ., empty, %2e%2e, ..%2f, '
            '%252e%252e, back-slash, NUL, absolute-path injection, sibling/docroot names) and benign segments x 2 '
            'docroot layouts x 4 docroot spellings x 5 mounts x dirlisting x {HTTP front end, request event handed to '
            'Static} x optional Range header from a grammar; (b) enumeration: every path of <=3 (thorough: 4 via HTTP, 5 direct) segments over a 12-segment core '
            'alphabet in both delivery modes, and every Range header of 1-2 specs '
            '(first/last from {"",0,1,len-1,len,len+5,abc} plus malformed extras) x units and 3-spec headers over a '
            'reduced value set x files of 0/1/10/4097 bytes, plus positions written in non-ASCII digit characters '
            '(latin-1 superscripts, Unicode decimal digits, circled digits; as header bytes and as str handed over directly). Non-trivial = the decoded path leaves the document '
            'root or contains an encoded dot/separator/back-slash segment, or a range spec that is open, suffix, '
            'reversed, out of bounds or non-numeric; distinct = distinct spec hash')
    assumptions = (
        'request paths are ASCII (non-ASCII is percent-encoded, as HTTP clients do); no symbolic links in the tree',
        'a not-found/redirect/4xx answer is always acceptable except for plain canonical paths of existing files',
        'Range: 416 and 200-with-the-full-file are both accepted for unsatisfiable and for malformed headers; '
        'multi-range headers may also be answered 200 or 416 (RFC 7233 6.1); headers that are outside the RFC '
        'grammar but readable by a lenient parser (inner white space, BYTES, empty elements) only get the '
        'unconditional clauses',
        'presence of Content-Range on a 416 is not required (SHOULD), its value is checked when present',
    )
    budget = {'quick': (900, 4), 'thorough': (45000, 16)}

    # ------------------------------------------------------------------ process set-up
    def setup(self):
        driver.quiet_process()
        _ensure_tree()
        _AUD['base'] = _ST['base']
        if not _AUD['installed']:
            _AUD['installed'] = True
            sys.addaudithook(_audit)

    # ------------------------------------------------------------------ generators
    def strategy(self, tier):
        maxseg = 5 if tier == 'quick' else 6
        seg = st.one_of(st.sampled_from(HOSTILE), st.sampled_from(BENIGN))
        ups = st.sampled_from(['..', '..', '..', '%2e%2e', '%2E%2E', '.%2e', '%2e.', '..%2f', '..%2F..', '%252e%252e', '..\\',
                               '..%5c', '%2e%2e%2f', '..;', '.', ''])
        dirs = st.sampled_from(['sub', 'sub', 'deep', 'idx', 'empty', '{SIB}', '{ROOT}', 'nonexistent', '%2e%2e', '.', ''])
        goal = st.sampled_from([['secret.txt'], ['secret.txt'], ['a.txt'], ['{SIB}', 's.txt'], ['{SIB}', 'a.txt'], ['{SIB}'],
                                ['{SIB}', ''], ['{ROOT}.bak', 'a.txt'], ['{ROOT}2', 'a.txt'], ['{ROOT}', 'a.txt'],
                                ['{ROOT}', '..', '{SIB}', 's.txt'], [], [''], ['index.html'], ['f10'], ['sub', 'b.txt'],
                                ['..', 'secret0.txt'], ['idx', 'index.html'], ['idx', '']])
        # climb out of the root: some directories down, at least as many steps up, then a target outside
        attack = st.tuples(st.lists(dirs, max_size=2), st.lists(ups, min_size=1, max_size=4), goal).map(
            lambda t: t[0] + t[1] + t[2])
        free = st.lists(seg, min_size=0, max_size=maxseg)
        common = {
            'mode': st.sampled_from(['http', 'direct']),
            'disp': st.booleans(),
            'layout': st.sampled_from([0, 0, 0, 1]),
            'droot': st.sampled_from([0, 0, 0, 1, 2, 3]),
            'mount': st.sampled_from([0, 0, 1, 2, 3, 4]),
            'pfx': st.sampled_from([True] * 7 + [False]),
            'lead': st.sampled_from([True] * 7 + [False]),
            'listing': st.booleans(),
            'range': st.one_of(st.none(), st.none(), st.none(), st.none(), _range_strategy()),
            'proto': st.sampled_from(['1.1'] * 7 + ['1.0']),
        }
        pathcase = st.fixed_dictionaries(dict(common, segs=free))
        attackcase = st.fixed_dictionaries(dict(common, segs=attack))
        rangecase = st.fixed_dictionaries(dict(
            common, droot=st.just(0), mount=st.sampled_from([0, 0, 2]), pfx=st.just(True), lead=st.just(True),
            segs=st.sampled_from([['f0'], ['f1'], ['f10'], ['f10'], ['f4097'], ['f4097'], ['idx'], ['sub', 'b.txt']]),
            range=_range_strategy(), proto=st.sampled_from(['1.1'] * 9 + ['1.0'])))
        return st.one_of(pathcase, pathcase, attackcase, attackcase, attackcase, rangecase)

    def enumerate(self, tier):
        out = []
        # every path of up to N segments over the core alphabet, both delivery modes
        core = ['..', '.', '', 'sub', 'a.txt', '%2e%2e', '..%2f', '%252e%252e', '..\\', '{SIB}', 'secret.txt', '{ROOT}']
        depth = {'http': 3, 'direct': 3} if tier == 'quick' else {'http': 4, 'direct': 5}
        for mode, n in depth.items():
            level = [[]]
            for _ in range(n + 1):
                for segs in level:
                    out.append({'mode': mode, 'segs': segs, 'listing': True})
                level = [segs + [c] for segs in level for c in core]
        # Range headers: (value set, number of specs, units)
        if tier == 'quick':
            plan = [('full', 1, ['bytes', 'items', 'Bytes']), ('full', 2, ['bytes']), ('small', 3, ['bytes'])]
        else:
            plan = [('full', 1, ['bytes', 'items', 'Bytes']), ('full', 2, ['bytes', 'items']), ('mid', 3, ['bytes'])]
        for fname, size in SIZES.items():
            for level, n, units in plan:
                specs = _enum_specs(size, level)
                combos = [[]]
                for _ in range(n):
                    combos = [c + [x] for c in combos for x in specs]
                for unit in units:
                    for c in combos:
                        out.append({'segs': [fname], 'range': '%s=%s' % (unit, ','.join(c))})
        # positions in non-ASCII digit characters: alone and next to a well-formed spec, both delivery modes
        for fname in SIZES:
            for mode in ('http', 'direct'):
                for x in RANGE_NONASCII:
                    for r in (x + '-', '0-' + x, '-' + x, x + '-' + x, '0-0,' + x + '-', '-' + x + ',0-0'):
                        out.append({'mode': mode, 'segs': [fname], 'range': 'bytes=' + r})
        return out

    # ------------------------------------------------------------------ execution
    def _deliver(self, spec, lay, path):
        mount = MOUNTS[spec.get('mount', 0) % len(MOUNTS)]
        droot = lay['spellings'][spec.get('droot', 0) % 4]
        rng = spec.get('range')
        proto = spec.get('proto', '1.1')
        static = Static(docroot=droot, path=mount, dirlisting=bool(spec.get('listing', False)))
        rig = Rig(extra=[static], with_dispatcher=bool(spec.get('disp', True)))
        s = rig.sock(1)
        escaped = None
        undeliverable = False
        _AUD['seen'] = []
        try:
            with driver.captured_stderr() as err:
                try:
                    if spec.get('mode', 'http') == 'http':
                        raw = ('GET %s HTTP/%s\r\nHost: a\r\n' % (path, proto)).encode('latin-1')
                        if rng is not None:
                            raw += b'Range: ' + wire_bytes(rng) + b'\r\n'
                        raw += b'\r\n'
                        _AUD['on'] = True
                        rig.feed(s, raw)
                    else:
                        heads = [('Host', 'a')] + ([('Range', rng)] if rng is not None else [])
                        try:
                            req = Request(s, 'GET', 'http', path, tuple(int(x) for x in proto.split('.')), '',
                                          headers=Headers(heads), server=rig.srv)
                            res = Response(req)
                        except Exception:
                            undeliverable = True   # the front end itself cannot represent this path
                        else:
                            _AUD['on'] = True
                            rig.srv.fire(request_event(req, res))
                            rig.settle()
                except Exception as e:  # escaped from tick()
                    escaped = repr(e)
                finally:
                    _AUD['on'] = False
            out = rig.output(s)
            excs = [getattr(t, '__name__', str(t)) for t, *_ in rig.wire.exc
                    if not (isinstance(t, type) and issubclass(t, HTTPException))]
            return {'out': out, 'stuck': rig.stuck, 'escaped': escaped, 'undeliverable': undeliverable,
                    'excs': excs, 'stderr': err.getvalue(), 'seen': list(_AUD['seen']),
                    'req_paths': [x['path'] for x in rig.wire.requests]}
        finally:
            _AUD['on'] = False
            rig.cleanup()

    def execute(self, spec):
        lay = _ST['layouts'][spec.get('layout', 0) % len(_ST['layouts'])]
        path, mount = build_path(spec, lay)
        rng = spec.get('range')
        mode = spec.get('mode', 'http')
        if rng is not None and mode == 'http':
            rng = wire_bytes(rng).decode('latin-1')     # the header text a recipient reads off the wire
        segs = spec.get('segs', [])
        handled, rels, escapes = denote(path, mount, lay)

        classes = ['mode:' + mode]
        lowsegs = [s.lower() for s in segs]
        encoded = any(('%2e' in s or '%2f' in s or '%5c' in s or '%25' in s or '\\' in s) for s in lowsegs)
        if escapes:
            classes.append('path:escapes-root')
            if any('{SIB}' in s or '{ROOT}.bak' in s or '{ROOT}2' in s for s in segs):
                classes.append('path:names-sibling')
        if encoded:
            classes.append('path:encoded-segment')
        if mount is not None:
            classes.append('mounted')
        rinfo = None
        r_nontrivial = False
        files = lay['files']
        if rng is not None:
            size0 = len(files[rels[0]]) if rels and rels[0] in files else 10
            rinfo = parse_range(rng, size0)
            classes.append('range:' + rinfo['klass'])
            if rinfo['klass'] == 'valid':
                classes.append('range:multi' if rinfo['nspecs'] > 1 else 'range:single')
                if not rinfo['resolved']:
                    classes.append('range:unsatisfiable')
            for f in sorted(rinfo['feats']):
                classes.append('range:' + f)
            r_nontrivial = bool(rinfo['feats'] & {'open', 'suffix', 'reversed', 'out-of-bounds', 'non-numeric'})
        nontrivial = escapes or encoded or r_nontrivial

        def bad(clause, msg):
            return Result(False, clause, '%s [mode=%s path=%r mount=%r range=%r]' % (msg, mode, path, mount, rng),
                          nontrivial=nontrivial, classes=classes)

        obs = self._deliver(spec, lay, path)
        if obs['undeliverable']:
            return Result(True, nontrivial=False, classes=classes + ['undeliverable'])
        if obs['escaped']:
            return bad('exception-escaped', 'exception escaped the event loop: %s' % obs['escaped'])
        if obs['stuck']:
            return bad('no-quiescence', 'the rig did not settle')

        if mode == 'http':
            # the front end may read the request-target differently ('//x/y' is authority + path for urlsplit):
            # what the path it hands to the dispatchers denotes is acceptable as well
            for p2 in obs['req_paths']:
                if isinstance(p2, str) and p2 != path:
                    h2, rels2, esc2 = denote(p2, mount, lay)
                    rels = rels + [x for x in rels2 if x not in rels]
                    classes.append('front-end-rewrote-path')
        res = self._judge(dict(spec, range=rng), lay, obs, path, mount, handled, rels, escapes, classes, nontrivial, bad)
        if not res.ok:
            return res
        if MARK in obs['out']:
            i = obs['out'].find(MARK)
            return bad('marker-leaked', 'marker of a file outside the root in the response: %r' % obs['out'][i:i + 40])

        # nothing outside the root may be opened or listed, whatever the answer is
        root = lay['docroot']
        for p in obs['seen']:
            rp = os.path.realpath(p)
            if rp != root and not rp.startswith(root + os.sep):
                return bad('opened-outside-root', 'open()/listdir() of %r while serving' % p.replace(_ST['base'], '<base>'))
        return res

    def _judge(self, spec, lay, obs, path, mount, handled, rels, escapes, classes, nontrivial, bad):
        rng = spec.get('range')
        proto = spec.get('proto', '1.1')
        segs = spec.get('segs', [])
        files = lay['files']
        resps, rest = decode_responses(obs['out'], ['GET', 'GET', 'GET'])
        extras = [x for x in resps[1:] if x is not None]
        if not resps or resps[0] is None:
            return bad('no-response', 'no response was written')
        r = resps[0]
        if not isinstance(r, dict):
            return bad('undecodable-response', 'response cannot be decoded (body shorter than announced?): %s' % (r,))
        stc = r['status']
        classes.append('status:%dxx' % (stc // 100) if stc not in (200, 206, 404, 416) else 'status:%d' % stc)
        if stc >= 500 or obs['excs']:
            return bad('internal-error:%s' % (obs['excs'][0] if obs['excs'] else stc),
                       'status %d, exception events %r: %s' % (stc, obs['excs'], obs['stderr'].strip().splitlines()[-1:] or ''))
        if rest or extras:
            # An exception raised by a request handler is answered twice by circuits.web.http (C15's business);
            # only bytes following a *served* response can be "more than the file".
            if stc >= 400 and not rest and all(isinstance(x, dict) and x['status'] == stc for x in extras):
                classes.append('error-response-repeated')
            else:
                return bad('bytes-after-response', 'bytes after the %d response (more body than announced): %r' % (
                    stc, obs['out'][-40:]))

        # what may be served for this path
        cands = []      # ('file', data) | ('listing', entries)
        for rel in rels:
            if rel in files:
                cands.append(('file', files[rel]))
            elif rel in lay['dirs']:
                for d in DEFAULTS:
                    k = (rel + b'/' if rel else b'') + d.encode()
                    if k in files:
                        cands.append(('file', files[k]))
                cands.append(('listing', lay['dirs'][rel]))
        plain = (handled and all(_PLAIN.match(s) for s in segs) and spec.get('lead', True)
                 and (mount is None or spec.get('pfx', True)))
        must_serve = plain and rels and (rels[0] in files or (rels[0] in lay['dirs'] and (
            any(c[0] == 'file' for c in cands) or spec.get('listing', False))))
        if must_serve:
            classes.append('must-serve')

        if stc in (200, 206, 416):
            if not cands:
                return bad('served-outside-root' if escapes else 'served-undenoted',
                           'status %d for a path that denotes nothing inside the document root; body starts %r' % (
                               stc, r['body'][:60]))
            verdicts = []
            for kind, what in cands:
                if kind == 'file':
                    ok, clause, msg = judge_file(r, what, rng, proto)
                else:
                    ok = stc == 200 and listing_matches(r['body'], what)
                    clause, msg = 'content-mismatch', 'body is neither the denoted file nor a listing of the denoted directory'
                if ok:
                    classes.append('served:' + kind)
                    if stc == 206:
                        classes.append('multipart' if 'multipart' in dict(r['headers']).get('content-type', '') else 'single-part')
                    return Result(True, nontrivial=nontrivial, classes=classes)
                verdicts.append((clause, msg))
            return bad(*verdicts[0])
        if 300 <= stc < 500:
            if must_serve and not (stc < 400 and rels[0] in lay['dirs']):   # a directory may be redirected (to 'dir/')
                return bad('not-served', 'plain canonical path of an existing file/directory answered %d' % stc)
            return Result(True, nontrivial=nontrivial, classes=classes)
        return bad('unexpected-status', 'status %d' % stc)


PROP = C16()
