"""C10 — pollers report exactly the registered-and-ready descriptors; discarded/closed ones stay silent; the three agree.

Spec:
  {"ops": [[op, slot, side, k], ...]}

The same op list is interpreted on three *universes* (Select, Poll, EPoll), one after the other, each with a
fresh Manager + poller + observer and its own socketpairs (so fd numbers and kernel states are identical in the
three runs).  A slot holds one socketpair; (slot, side) names one end = one descriptor with ONE owning source
(channel 'cA', 'cB', or a source object without ``channel`` -> '*').

  addR/addW/rmR/rmW/discard   poller API on that end (add only if the role is not registered yet, as every caller does)
  send/recv/fill/shut/oob     traffic on that end (drives readability/writability of both ends; oob = one urgent byte sent / taken)
  close                       k%4: 0 discard-then-close, 1|2 close WITHOUT discard, 3 close-then-discard
  open                        new socketpair (append a slot, or recycle the slot: remaining ends are discarded+closed
                              first); the lowest free fd numbers are reused
  resume                      poller.resume() (control pipe)
  poll                        one zero-time-out iteration: fire(generate_events(lock, 0)); tick(); settle

Oracle at every poll, per universe: for every open registered end the kernel is asked directly
(select.select([fd],[fd],[],0) for Select; a private select.poll() for Poll/EPoll and for HUP/ERR) and the events
of the iteration must be exactly {_read iff reader-registered & readable, _write iff writer-registered & writable},
once each, addressed to the owner's channel.
"""
import os
import select
import socket

from hypothesis import strategies as st

from circuits import BaseComponent, Manager, handler
from circuits.core.events import generate_events
from circuits.core.pollers import EPoll, Poll, Select
from vlib import driver
from vlib.runner import Prop, Result

POLLERS = (('select', Select), ('poll', Poll), ('epoll', EPoll))
MAX_SLOTS = 4
CHANNELS = ('cA', 'cB', None)      # None: plain source object without a channel attribute -> '*'
SEND_SIZES = (1, 100, 3000)
RECV_SIZES = (1, 1000, 1 << 20)
SHUT_HOW = (socket.SHUT_RD, socket.SHUT_WR, socket.SHUT_RDWR)
HUPMASK = select.POLLHUP | select.POLLERR | select.POLLNVAL

OPS = (['addR'] * 4 + ['addW'] * 4 + ['rmR'] * 2 + ['rmW'] * 2 + ['discard'] * 2 + ['send'] * 4 + ['recv'] * 2 +
       ['fill'] * 1 + ['shut'] * 1 + ['close'] * 3 + ['open'] * 3 + ['resume'] * 1 + ['poll'] * 8 + ['oob'] * 1 + ['addR2'] * 1 + ['addW2'] * 1)


class Src(BaseComponent):
    pass


class Plain:
    """A source without ``channel``: BasePoller falls back to '*'."""


class Obs(BaseComponent):
    channel = '*'

    def init(self, log):
        self.log = log

    @handler('_read', '_write', '_disconnect', '_error', channel='*')
    def _on_io(self, event, *args):
        self.log.append((event.name, args[0] if args else None, tuple(c if isinstance(c, str) else '<%s>' % type(c).__name__ for c in event.channels)))

    @handler('exception', channel='*')
    def _on_exception(self, *args, **kw):
        self.log.append(('exception', None, (repr(args[:2])[:300],)))


class End:
    __slots__ = ('sock', 'h', 'label', 'number', 'open', 'owner', 'channel', 'R', 'W', 'was_discarded', 'hung_up', 'ever_registered',
                 'alt_owner', 'alt_channel', 'chans_used', 'strict')

    def __init__(self, sock, label, owner, channel, intfd=False):
        self.sock = sock
        self.h = sock.fileno() if intfd else sock      # what the poller is handed: the socket object, or its bare number
        self.label = label
        self.number = sock.fileno()
        self.open = True
        self.owner = owner
        self.channel = channel
        self.R = False
        self.W = False
        self.was_discarded = False     # discard() called by the harness while registered
        self.hung_up = False           # discarded by the poller itself (_disconnect)
        self.ever_registered = False
        self.alt_owner = self.alt_channel = None    # a second component that may register the OTHER role (ops addR2/addW2)
        self.chans_used = set()        # channels of the registrants since the descriptor was last unregistered altogether
        self.strict = None             # (role, channel) of the most recent add, while that role stays registered

    def allowed(self, name):
        """Channels an event may be addressed to.  One registrant: its channel.  Two components holding one role each:
        the statement owes each role to its registrant, the poller keeps ONE target per descriptor (the latest
        registrant) - only the role registered last is held to its registrant, the other may go to either."""
        role = {'_read': 'R', '_write': 'W'}.get(name)
        if self.strict and role == self.strict[0]:
            return {(self.strict[1],)}
        return {(c,) for c in self.chans_used} or {(self.channel,)}

    def note_add(self, role, channel):
        if not self.registered:
            self.chans_used = set()
        self.chans_used.add(channel)
        self.strict = (role, channel)

    @property
    def registered(self):
        return self.R or self.W


class Violation(Exception):
    def __init__(self, clause, msg):
        Exception.__init__(self, clause, msg)
        self.clause = clause
        self.msg = msg


def kernel_state(sock):
    """(select-readable, select-writable, POLLIN, POLLOUT, HUP|ERR) straight from the kernel."""
    r, w, _ = select.select([sock], [sock], [], 0)
    po = select.poll()
    po.register(sock, select.POLLIN | select.POLLOUT)
    ev = po.poll(0)
    bits = ev[0][1] if ev else 0
    return (bool(r), bool(w), bool(bits & select.POLLIN), bool(bits & select.POLLOUT), bool(bits & HUPMASK))


class Universe:
    def __init__(self, kind, cls, intfd=False):
        self.kind = kind
        self.intfd = intfd
        self.log = []
        self.root = Manager()
        self.poller = cls().register(self.root)
        Obs(self.log).register(self.root)
        self.sources = []
        for ch in CHANNELS:
            self.sources.append(Plain() if ch is None else Src(channel=ch).register(self.root))
        driver.settle(self.root, 50)
        self.slots = []        # [End, End]
        self.gens = []
        self.ends = []         # every End ever created (keeps socket objects alive -> ids stay unique)
        self.by_id = {}
        self.retired = set()   # fd numbers of closed ends that had been registered with the poller
        self.flags = set()     # class labels
        self.pending = set()   # non-trivial shapes waiting for a poll
        self.nontrivial = False
        self.trace = []        # per poll: {label: (R, W, kernel state, names)}
        self.polls = 0
        self.events = 0
        for _ in range(2):
            self.open_pair(None, 0)

    # ------------------------------------------------------------------ pool
    def open_pair(self, slot, k):
        a, b = socket.socketpair()
        for s in (a, b):
            s.setblocking(False)
            s.setsockopt(socket.SOL_SOCKET, socket.SO_SNDBUF, 4096)
        if slot is None:
            self.slots.append(None)
            self.gens.append(0)
            slot = len(self.slots) - 1
        else:
            self.gens[slot] += 1
        pair = []
        for side, s in enumerate((a, b)):
            o = (k + slot + side * (1 + k // 3)) % len(CHANNELS)
            e = End(s, 's%dg%d%s' % (slot, self.gens[slot], 'ab'[side]), self.sources[o], CHANNELS[o] or '*', self.intfd)
            pair.append(e)
            self.ends.append(e)
            self.by_id[id(s)] = e
            if e.number in self.retired:
                self.flags.add('fd-number-reused')
                self.pending.add('fd-number-reused')
            if any(z.number == e.number and not z.open and z.registered for z in self.ends):
                self.flags.add('zombie-number-reused')
        self.slots[slot] = pair

    def close_end(self, e, mode):
        """mode 0: discard then close; 1: close without discard; 2: close then discard."""
        if not e.open:
            return
        if self.intfd:
            mode = 0        # a bare number cannot be told from its successor: every caller discards before closing
        if mode == 0:
            self.api('discard', e)
        if e.ever_registered:
            self.retired.add(e.number)
        e.sock.close()
        e.open = False
        if mode == 1 and e.registered:
            self.flags.add('closed-without-discard')
        if mode == 2:
            self.api('discard', e)

    # ------------------------------------------------------------------ poller API (model + real)
    def api(self, what, e):
        p = self.poller
        try:
            alt = what.endswith('2')
            if alt:
                what = what[:-1]
                if (e.R if what == 'addR' else e.W):
                    return
                if e.alt_owner is None:
                    j = (CHANNELS.index(e.channel if e.channel != '*' else None) + 1) % len(CHANNELS)
                    e.alt_owner, e.alt_channel = self.sources[j], CHANNELS[j] or '*'
                if e.registered and e.alt_channel not in e.chans_used:
                    self.flags.add('two-components-one-descriptor')
            src, ch = (e.alt_owner, e.alt_channel) if alt else (e.owner, e.channel)
            if what == 'addR':
                if e.R:
                    return
                if e.was_discarded:
                    self.flags.add('re-add-after-discard')
                    self.pending.add('re-add-after-discard')
                if e.hung_up:
                    self.flags.add('re-add-after-poller-disconnect')
                e.note_add('R', ch)
                p.addReader(src, e.h)
                e.R = True
                e.ever_registered = True
            elif what == 'addW':
                if e.W:
                    return
                if e.was_discarded:
                    self.flags.add('re-add-after-discard')
                    self.pending.add('re-add-after-discard')
                if e.hung_up:
                    self.flags.add('re-add-after-poller-disconnect')
                e.note_add('W', ch)
                p.addWriter(src, e.h)
                e.W = True
                e.ever_registered = True
            elif what == 'rmR':
                if e.R and e.W:
                    self.flags.add('role-removed-other-stays')
                    self.pending.add('role-removed-other-stays')
                p.removeReader(e.h)
                e.R = False
                if e.strict and e.strict[0] == 'R':
                    e.strict = None
            elif what == 'rmW':
                if e.R and e.W:
                    self.flags.add('role-removed-other-stays')
                    self.pending.add('role-removed-other-stays')
                p.removeWriter(e.h)
                e.W = False
                if e.strict and e.strict[0] == 'W':
                    e.strict = None
            elif what == 'discard':
                if e.registered:
                    e.was_discarded = True
                p.discard(e.h)
                e.R = e.W = False
        except Exception as exc:
            raise Violation('api-raised', '%s(%s) raised %s: %s' % (what, e.label, type(exc).__name__, str(exc)[:120]))

    # ------------------------------------------------------------------ ops
    def apply(self, op, i, s, k):
        if op == 'poll':
            return self.poll()
        if op == 'resume':
            self.poller.resume()
            self.flags.add('resume')
            return None
        if op == 'open':
            if len(self.slots) < MAX_SLOTS and k % 2:
                self.open_pair(None, k)
            else:
                slot = i % len(self.slots)
                for e in self.slots[slot]:
                    self.close_end(e, 0)
                self.open_pair(slot, k)
            return None
        e = self.slots[i % len(self.slots)][s % 2]
        other = self.slots[i % len(self.slots)][1 - s % 2]
        if op == 'close':
            self.close_end(e, (0, 1, 1, 2)[k % 4])
            return None
        if op == 'discard':
            # the only API call a caller makes with an already closed descriptor (close-then-discard)
            if self.intfd and not e.open:
                return None     # the bare number may belong to a successor by now
            self.api('discard', e)
            return None
        if not e.open:
            return None
        if op in ('addR', 'addW', 'rmR', 'rmW', 'addR2', 'addW2'):
            self.api(op, e)
        elif op == 'send':
            try:
                e.sock.send(b'x' * SEND_SIZES[k % 3])
            except OSError:
                pass
        elif op == 'recv':
            try:
                e.sock.recv(RECV_SIZES[k % 3])
            except OSError:
                pass
        elif op == 'fill':
            try:
                for _ in range(400):
                    e.sock.send(b'y' * 4096)
            except OSError:
                pass
            if other.open:
                self.flags.add('send-buffer-filled')
        elif op == 'shut':
            try:
                e.sock.shutdown(SHUT_HOW[k % 3])
            except OSError:
                pass
        elif op == 'oob':
            # urgent data: an "exceptional condition" for select(), POLLPRI for poll(); neither is read or write readiness
            try:
                if k % 3:
                    e.sock.send(b'!', socket.MSG_OOB)
                    if other.open:
                        self.flags.add('urgent-data-sent')
                else:
                    e.sock.recv(1, socket.MSG_OOB)
            except OSError:
                pass
        return None

    # ------------------------------------------------------------------ one iteration + oracle
    def iteration(self):
        del self.log[:]
        self.root.fire(generate_events(self.root._lock, 0), '*')
        self.root.tick()
        if driver.settle(self.root, 50) < 0:
            raise Violation('no-quiescence', 'poll iteration did not settle')
        return list(self.log)

    def poll(self):
        self.polls += 1
        if self.pending:
            self.nontrivial = True
        zombies = [e for e in self.ends if e.registered and not e.open]
        preen = self.kind == 'select' and bool(zombies)
        self.judge(self.iteration(), preen)
        if preen:
            # Select spends the iteration in which it meets a closed descriptor on dropping it
            # (no events are lost: readiness is level-triggered); the next one must be exact again.
            self.flags.add('select-preen')
            for z in zombies:
                z.R = z.W = False
            self.judge(self.iteration(), False)

    def judge(self, log, lenient):
        ks = {}
        for e in self.ends:
            if e.open and e.registered:
                ks[e.label] = kernel_state(e.sock)
        by_end = {}
        for name, fd, chans in log:
            if name == 'exception':
                raise Violation('poller-exception', 'exception event during the iteration: %s' % (chans[0],))
            if self.intfd:
                e = next((z for z in self.ends if z.open and z.number == fd), None) if type(fd) is int else None
                if e is None:
                    e = next((z for z in reversed(self.ends) if z.number == fd), None) if type(fd) is int else None
            else:
                e = self.by_id.get(id(fd)) if isinstance(fd, socket.socket) else None
            if e is None or e.h != fd or (not self.intfd and e.sock is not fd):
                raise Violation('event-unknown-fd', '%s(%r) to %r names no descriptor handed to the poller' % (name, fd, chans))
            self.events += 1
            if not e.open:
                if name == '_disconnect' and e.registered and chans in e.allowed(name):
                    # closed without discard: one _disconnect (POLLNVAL) is by design; afterwards it is gone
                    e.R = e.W = False
                    self.flags.add('nval-disconnect')
                    continue
                raise Violation('event-for-closed-fd', '%s(%s) to %r: descriptor was closed%s (fd number %d%s)' % (
                    name, e.label, chans, '' if e.registered else ' and discarded', e.number,
                    ', now owned by %s' % ','.join(x.label for x in self.ends if x.open and x.number == e.number)
                    if any(x.open and x.number == e.number for x in self.ends) else ''))
            if not e.registered:
                raise Violation('event-for-unregistered-fd', '%s(%s) to %r: descriptor is not registered%s' % (
                    name, e.label, chans, ' (discarded)' if e.was_discarded or e.hung_up else ''))
            by_end.setdefault(e.label, []).append((name, chans))
        snap = {}
        for e in self.ends:
            if e.label not in ks:
                continue
            sel_r, sel_w, pin, pout, hup = ks[e.label]
            r, w = (sel_r, sel_w) if self.kind == 'select' else (pin, pout)
            got = by_end.get(e.label, [])
            names = sorted(n for n, _ in got)
            normal = sorted((['_read'] if e.R and r else []) + (['_write'] if e.W and w else []))
            snap[e.label] = (e.R, e.W, ks[e.label], tuple(names))
            where = '%s R=%d W=%d kernel(r=%d w=%d hup=%d)' % (e.label, e.R, e.W, r, w, hup)
            for n, ch in got:
                if ch not in e.allowed(n):
                    raise Violation('wrong-channel', '%s(%s) addressed to %r, registered by %r' % (n, e.label, ch, sorted(e.allowed(n))))
            if names == normal:
                for n in names:
                    self.flags.add('seen' + n)
                if e.R and e.W:
                    self.flags.add('both-roles-polled')
                if hup:
                    self.flags.add('hup-state-polled')
                if e.W and not w:
                    self.flags.add('writer-not-writable')
                continue
            if self.kind != 'select' and hup and '_read' not in normal and names == ['_disconnect']:
                # by design: Poll/EPoll discard a hung-up descriptor that has no read event due
                e.R = e.W = False
                e.hung_up = True
                self.flags.add('hup-disconnect')
                continue
            if lenient and len(set(names)) == len(names) and set(names) <= set(normal):
                continue
            if len(set(names)) != len(names):
                raise Violation('duplicate-event', '%s: events %r in one iteration' % (where, names))
            missing = [n for n in normal if n not in names]
            if missing:
                raise Violation('missing-event', '%s: expected %r, got %r' % (where, normal, names))
            raise Violation('spurious-event', '%s: expected %r, got %r' % (where, normal, names))
        if not lenient:
            self.trace.append(snap)

    def mirror(self):
        """isReading/isWriting and the fileno->object map mirror the registrations (open descriptors only)."""
        p = self.poller
        for e in self.ends:
            if not e.open:
                continue
            if bool(p.isReading(e.h)) != e.R or bool(p.isWriting(e.h)) != e.W:
                raise Violation('is-registered', '%s: isReading=%r isWriting=%r, registered R=%d W=%d' % (
                    e.label, p.isReading(e.h), p.isWriting(e.h), e.R, e.W))
        m = getattr(p, '_map', None)
        if m is None:
            return
        for e in self.ends:
            if e.open and e.registered and (m.get(e.number) != e.h or type(m.get(e.number)) is not type(e.h)):
                raise Violation('map-mirror', '%s registered (R=%d W=%d) but _map[%d] is %r' % (e.label, e.R, e.W, e.number, m.get(e.number)))
        for k, v in list(m.items()):
            if self.intfd:
                e = next((z for z in self.ends if z.open and z.number == v), None) if type(v) is int else None
            else:
                e = self.by_id.get(id(v)) if isinstance(v, socket.socket) else None
                if e is not None and e.sock is not v:
                    e = None
            if e is None or not e.open:
                continue
            if not e.registered:
                raise Violation('map-mirror', '_map[%d] still holds %s which is not registered%s' % (
                    k, e.label, ' (discarded)' if e.was_discarded else ''))
            if k != e.number:
                raise Violation('map-mirror', '_map[%d] holds %s whose fd number is %d' % (k, e.label, e.number))

    def destroy(self):
        for e in self.ends:
            try:
                e.sock.close()
            except OSError:
                pass
        p = self.poller
        for fd in (p._ctrl_recv, p._ctrl_send):
            try:
                if isinstance(fd, int):
                    os.close(fd)
                else:
                    fd.close()
            except OSError:
                pass
        po = getattr(p, '_poller', None)
        if po is not None and hasattr(po, 'close'):
            try:
                po.close()
            except OSError:
                pass
        del self.log[:]
        self.by_id.clear()


def _tail(ops):
    """every history ends with two iterations, so that whatever the ops set up is observed (and observed twice)."""
    return [list(o) for o in ops] + [['poll', 0, 0, 0], ['poll', 0, 0, 0]]


# macro shapes (expanded at generation time, the spec only holds primitive ops)
def _reuse(i, s, k, role, m, newrole=None):
    """register, close (mode m), open a new pair that takes over the number (optionally register the newcomer
    before the poller had a chance to notice), make the newcomer ready, poll twice."""
    reg = [[newrole, -1, 0, 0], [newrole, i + 1, 0, 0]] if newrole else []
    return [[role, i, s, 0], ['poll', 0, 0, 0], ['close', i, s, m], ['open', i + 1, 0, 2 * k + 1]] + reg + [
        ['send', -1, 0, 1], ['send', -1, 1, 1], ['send', i + 1, 0, 1], ['send', i + 1, 1, 1],
        ['poll', 0, 0, 0], ['poll', 0, 0, 0]]


def _roles(i, s, rm, k):
    """both roles, traffic so that both are ready, drop one role, poll."""
    return [['addR', i, s, 0], ['addW', i, s, 0], ['send', i, 1 - s, k], ['poll', 0, 0, 0], [rm, i, s, 0], ['poll', 0, 0, 0]]


def _readd(i, s, first, again):
    """register, discard, register again (possibly the other role), poll."""
    return [[first, i, s, 0], ['send', i, 1 - s, 0], ['poll', 0, 0, 0], ['discard', i, s, 0], ['poll', 0, 0, 0], [again, i, s, 0], ['poll', 0, 0, 0]]


class C10(Prop):
    id = 'C10'
    rule = ('op histories (<=20 segments quick, <=45 thorough; a segment is one op or a 6-12 op macro shape; hypothesis-generated lists of [op, slot, side, k] over a pool of '
            '<=4 socketpairs, both ends registrable, one owning source per descriptor plus ops addR2/addW2 by a second component, urgent (OOB) bytes as peer traffic; in 1 of 4 histories the poller is handed bare descriptor numbers (as io.Notify and io.Serial do) instead of socket objects) interpreted on three universes '
            '(Select, Poll, EPoll) and judged at every zero-time-out iteration against the kernel (select(2)/poll(2) asked '
            'directly); non-trivial = the history removes one role while the other stays, re-adds a descriptor after a '
            'discard, or opens a socket whose fd number belonged to an earlier registered descriptor, AND is polled '
            'afterwards; distinct = distinct spec hash')
    assumptions = (
        'one owning source component per descriptor, except ops addR2/addW2: a second component registers the other role; BasePoller keeps ONE target per descriptor (the latest registrant), so only the role registered last is held to its registrant\'s channel',
        'add* is never called for a role that is already registered, nor on a closed descriptor (no caller does); '
        'remove*/discard of unregistered descriptors and discard of a closed descriptor are generated',
        'Poll/EPoll may answer a hung-up descriptor that has no read event due with one _disconnect instead of _write, '
        'Poll may emit one _disconnect for a descriptor closed without discard; both then count as discarded',
        'the iteration in which Select meets a closed descriptor may emit fewer events (it drops the descriptor); '
        'the iteration after it must be exact',
        'Linux AF_UNIX socketpair semantics for the kernel oracle',
        'histories with bare-int descriptors always discard before closing (a number cannot be told from its successor) and never use descriptor 0',
    )
    budget = {'quick': (1200, 4), 'thorough': (20000, 16)}

    def setup(self):
        driver.quiet_process()

    def strategy(self, tier):
        n = 20 if tier == 'quick' else 45      # segments; a macro segment expands to 6-12 ops
        op = st.tuples(st.sampled_from(OPS), st.integers(0, MAX_SLOTS - 1), st.integers(0, 1), st.integers(0, 8)).map(lambda t: [list(t)])
        end = st.tuples(st.integers(0, 1), st.integers(0, 1))
        reuse = st.tuples(st.integers(0, 1), st.integers(0, 1), st.integers(0, 8), st.sampled_from(['addR', 'addW']),
                          st.sampled_from([1, 1, 3, 0]), st.sampled_from([None, 'addR', 'addW'])).map(lambda t: _reuse(*t))
        roles = st.tuples(end, st.sampled_from(['rmR', 'rmW']), st.integers(0, 2)).map(lambda t: _roles(t[0][0], t[0][1], t[1], t[2]))
        readd = st.tuples(end, st.sampled_from(['addR', 'addW']), st.sampled_from(['addR', 'addW'])).map(lambda t: _readd(t[0][0], t[0][1], t[1], t[2]))
        seg = st.one_of([op] * 17 + [reuse, roles, readd])
        hist = st.one_of(st.lists(seg, min_size=1, max_size=10), st.lists(seg, min_size=10, max_size=n))
        return st.tuples(hist, st.sampled_from([False, False, False, True])).map(
            lambda t: {'ops': [o for sg in t[0] for o in sg], 'intfd': t[1]})

    def execute(self, spec):
        ops = _tail(spec['ops'])
        classes = set()
        nontrivial = False
        traces = {}
        stats = {}
        with driver.captured_stderr():
            for kind, cls in POLLERS:
                u = Universe(kind, cls, bool(spec.get('intfd')))
                try:
                    for step, (op, i, s, k) in enumerate(ops):
                        try:
                            u.apply(op, i, s, k)
                            u.mirror()
                        except Violation as v:
                            return Result(False, '%s:%s' % (v.clause, kind), '[%s] step %d %r: %s' % (kind, step, [op, i, s, k], v.msg))
                    classes |= u.flags
                    nontrivial = nontrivial or u.nontrivial
                    traces[kind] = u.trace
                    stats[kind] = u.events
                finally:
                    u.destroy()
        # the three agree: same registrations + same kernel state -> same events
        ref = traces['select']
        for kind in ('poll', 'epoll'):
            for n, (a, b) in enumerate(zip(ref, traces[kind])):
                for label, (R, W, ks, names) in a.items():
                    o = b.get(label)
                    if o is None or o[:2] != (R, W) or o[2] != ks or ks[4]:
                        continue
                    if o[3] != names:
                        return Result(False, 'pollers-disagree', 'poll #%d %s: select %r, %s %r' % (n, label, names, kind, o[3]))
        if spec.get('intfd'):
            classes.add('bare-int-descriptors')
        if not any(stats.values()):
            classes.add('no-event-at-all')
        return Result(True, nontrivial=nontrivial, classes=sorted(classes))


PROP = C10()
