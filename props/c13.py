"""C13 — HTTP messages are parsed identically however the byte stream is segmented.

Spec:
  {"side": "server", "reqs": [<request spec>, ...1..3], "multi": [[int, ...], ...], "iso": bool}
  {"side": "client", "resps": [<response spec>, ...1..3], "multi": [[int, ...], ...], "iso": bool}
(message specs: see vlib/c13_helpers.py)

One case = one message sequence x { one piece (baseline),
                                    EVERY single cut (cut j applied to every message of the sequence that is longer than j),
                                    byte-at-a-time, deterministic multi-cut families (all CR|LF, line-at-a-time, 2/3/7-byte reads ...),
                                    the generated multi-cuts, and with "iso": every single byte delivered as a read of its own }.
Message k+1 of a sequence is only sent after the reply to message k is complete (checked against the baseline at
every message boundary) — no pipelining.

Oracle
  metamorphic: per connection (request snapshots seen by a priority-100 `request` handler, bytes written minus Date,
               close seen, _buffers/_clients residue, exception events) after every message == the baseline's;
  anchor:      for the unambiguous subset of the grammar the baseline itself must be: one request event per request with
               the generated method/path/qs/protocol/headers/body and a 200 carrying the echo controller's body.
  client side: same relation on the `response` events of circuits.protocols.http.HTTP (all cuts) and of a whole
               circuits.web.client.Client (one piece, byte-at-a-time, multi-cuts; never connected, `read` events fired at it).
"""
import os
import re

from hypothesis import strategies as st

from circuits import BaseComponent, Manager, handler
from circuits.net.events import read
from circuits.web import Controller
from vlib import c13_helpers as G
from vlib import driver, httprig
from vlib.runner import Prop, Result

DATE_RE = re.compile(rb'Date: [^\r\n]*\r\n')


class Root(Controller):
    def index(self, *a, **k):
        return b'I:' + self.request.body.read()

    def echo(self, *a, **k):
        return b'E:' + self.request.body.read()


# ------------------------------------------------------------------------------------------------ server side
class ServerRun:
    """One rig shared by the deliveries of one case; every delivery uses a connection (socket double) of its own."""

    def __init__(self):
        self.rig = httprig.Rig(controllers=[Root()])
        self.n = 0

    def close(self):
        self.rig.cleanup()

    def _snap(self, s, exc0):
        rig = self.rig
        reqs = [{k: v for k, v in r.items() if k != 'sock'} for r in rig.wire.requests if r['sock'] is s]
        out = DATE_RE.sub(b'', rig.output(s))
        t = rig.tables(s)
        exc = [getattr(e[0], '__name__', repr(e[0])) for e in rig.wire.exc[exc0:]]
        return (reqs, out, rig.closed(s), (t['_buffers'], t['_clients']), exc, rig.stuck)

    def deliver(self, pieces_per_msg, base=None):
        """pieces_per_msg: [[bytes, ...], ...]. Returns (checkpoints, k_failed or None).

        With ``base`` (checkpoints of the one-piece delivery) the delivery stops at the first message after which the
        connection's observable state differs: a client would not have seen the reply it waits for.
        """
        rig = self.rig
        self.n += 1
        s = self.last_sock = rig.sock(0)      # same peer address for every delivery; identity is the object
        exc0 = len(rig.wire.exc)
        cps = []
        for k, pieces in enumerate(pieces_per_msg):
            for p in pieces:
                rig.feed(s, p)
            cps.append(self._snap(s, exc0))
            if base is not None and cps[k] != base[k]:
                return cps, k
        return cps, None


def _describe_server(base, got):
    names = ('request events', 'bytes written', 'close seen', '(_buffers,_clients) residue', 'exception events', 'not quiescent')
    for i, nm in enumerate(names):
        if base[i] != got[i]:
            if i == 0:
                return '%s: one piece %d event(s) %r / segmented %d event(s) %r' % (
                    nm, len(base[0]), _short(base[0]), len(got[0]), _short(got[0]))
            if i == 1:
                return '%s: one piece %r / segmented %r' % (nm, _status_lines(base[1]), _status_lines(got[1]))
            return '%s: one piece %r / segmented %r' % (nm, base[i], got[i])
    return 'equal'


def _short(reqs):
    return [(r['method'], r['path'], r['qs'], (r['body'] or b'')[:30]) for r in reqs][:3]


def _status_lines(out):
    return re.findall(rb'HTTP/1\.[01] \d{3}[^\r\n]*', out)[:4] or out[:60]


# ------------------------------------------------------------------------------------------------ client side
class CWire(BaseComponent):
    def init(self, *a, **k):
        self.responses = []
        self.exc = []
        self.closes = 0

    @handler('response', priority=100)
    def _r(self, res, *a):
        body = res.body.getvalue() if hasattr(res.body, 'getvalue') else None
        self.responses.append({
            'status': res.status, 'version': tuple(res.version) if res.version else None, 'reason': res.reason,
            'headers': sorted((k.lower(), v) for k, v in res.headers.items()), 'body': body})

    @handler('close', priority=100)
    def _c(self, *a):
        self.closes += 1

    @handler('exception', channel='*', priority=100)
    def _x(self, *a, **k):
        self.exc.append(getattr(a[0], '__name__', repr(a[0])) if a else '?')


class ProtoRun:
    """circuits.protocols.http.HTTP alone: a fresh component per delivery (it owns exactly one parser)."""

    kind = 'proto'

    def __init__(self):
        self.m = Manager()
        self.n = 0

    def close(self):
        pass

    def deliver(self, pieces_per_msg, base=None):
        from circuits.protocols.http import HTTP
        self.n += 1
        ch = 'c%d' % self.n
        http = HTTP(channel=ch).register(self.m)
        wire = CWire(channel=ch).register(self.m)
        stuck = driver.settle(self.m, 200) < 0
        cps = []
        try:
            for k, pieces in enumerate(pieces_per_msg):
                for p in pieces:
                    self.m.fire(read(p), ch)
                    if driver.settle(self.m, 400) < 0:
                        stuck = True
                cps.append((list(wire.responses), list(wire.exc), wire.closes, stuck))
                if base is not None and cps[k] != base[k]:
                    return cps, k
            return cps, None
        finally:
            http.unregister()
            wire.unregister()
            driver.settle(self.m, 200)


class ClientRun:
    """A whole circuits.web.client.Client (TCPClient + HTTP), never connected; read events are fired on its channel."""

    kind = 'client'

    def __init__(self):
        self.made = []

    def close(self):
        for c in self.made:
            self._dispose(c)
        self.made = []

    @staticmethod
    def _dispose(c):
        t = c._transport
        try:
            t._sock.close()
        except Exception:
            pass
        p = t._poller
        if p is not None:
            for fd in (p._ctrl_recv, p._ctrl_send):
                try:
                    if isinstance(fd, int):
                        os.close(fd)
                    else:
                        fd.close()
                except Exception:
                    pass

    def deliver(self, pieces_per_msg, base=None):
        from circuits.web.client import Client
        c = Client(channel='client')
        self.made.append(c)
        wire = CWire(channel='client').register(c)
        stuck = driver.settle(c, 200) < 0
        cps = []
        for k, pieces in enumerate(pieces_per_msg):
            for p in pieces:
                c.fire(read(p), 'client')
                if driver.settle(c, 400) < 0:
                    stuck = True
            last = c.response
            cps.append((list(wire.responses), list(wire.exc), wire.closes, stuck,
                        None if last is None else (last.status, last.body.getvalue())))
            if base is not None and cps[k] != base[k]:
                break
        else:
            k = None
        self._dispose(c)
        self.made.remove(c)
        return cps, k


def _describe_client(base, got):
    if base[0] != got[0]:
        f = lambda rs: [(r['status'], len(r['headers']), (r['body'] or b'')[:30]) for r in rs][:3]  # noqa
        return 'response events: one piece %d %r / segmented %d %r' % (len(base[0]), f(base[0]), len(got[0]), f(got[0]))
    names = ('response events', 'exception events', 'close events', 'not quiescent', 'Client.response')
    for i in range(1, len(base)):
        if base[i] != got[i]:
            return '%s: one piece %r / segmented %r' % (names[i], base[i], got[i])
    return 'equal'


# ------------------------------------------------------------------------------------------------ the property
def _norm_headers(hs):
    return sorted((k, G._norm_ws(v)) for k, v in hs)


class C13(Prop):
    id = 'C13'
    rule = ('grammar-generated well-formed HTTP/1.0/1.1 requests (methods, origin/absolute targets with query, 0-8 headers with '
            'OWS variants, obs-fold continuation lines, duplicates, obs-text; bodies none / Content-Length (incl. 0, binary, '
            'CRLF and request look-alikes) / chunked with extensions, several chunks, trailers; gzip/deflate content-coding), '
            'alone or as 2-3 keep-alive requests each sent after the previous reply, and the mirror-image responses '
            '(status lines, 204/304, Content-Length, chunked, until-close) for circuits.protocols.http.HTTP and circuits.web.client.Client; '
            'one case = one sequence x {one piece, EVERY single cut, byte-at-a-time, 7 deterministic multi-cut families, '
            'generated multi-cuts, optionally every isolated single byte}. A case is non-trivial iff the one-piece delivery '
            'produced a request (client side: response) event for every message AND the enumerated cuts include a cut inside the first '
            'line, between its CR and LF, and inside the header block (and, for chunked bodies, inside a chunk-size line and '
            'inside the last-chunk/trailer terminator); distinct = distinct spec hash')
    assumptions = (
        'no pipelining: message k+1 is fed only after the observable state after message k equals the baseline',
        'backslashes are never generated (the parser decodes lines with unicode_escape; acceptance is C14, not segmentation)',
        'whether a message is accepted at all is not asserted outside the unambiguous subset (anchor)',
        'a mismatch seen on the shared rig is only reported if it reproduces with both deliveries on fresh rigs',
        'client side: responses that never produce a response event in one piece (204/304 with headers, until-close) are trivial',
    )
    budget = {'quick': (180, 4), 'thorough': (3000, 16)}
    max_samples = 4
    shrink_lists = {'reqs': 1, 'resps': 1, 'h': 0, 'multi': 0, 'segs': 0, 'q': 0, 'sizes': 0, 'exts': 0, 'trailers': 0, 'fold': 0}

    def setup(self):
        driver.quiet_process()

    # -------------------------------------------------------------------------------------------- generation
    def strategy(self, tier):
        big = tier != 'quick'
        iso = st.sampled_from([False, False, False, True]) if not big else st.sampled_from([False, True])
        server = st.fixed_dictionaries({
            'side': st.just('server'),
            'reqs': st.one_of(st.lists(G.request_strategy(big), min_size=1, max_size=1),
                              st.lists(G.request_strategy(big), min_size=2, max_size=3)),
            'multi': G.multi_strategy(), 'iso': iso})
        client = st.fixed_dictionaries({
            'side': st.just('client'),
            'resps': st.one_of(st.lists(G.response_strategy(big), min_size=1, max_size=1),
                               st.lists(G.response_strategy(big), min_size=2, max_size=3)),
            'multi': G.multi_strategy(), 'iso': iso})
        return st.one_of(server, server, client)

    def enumerate(self, tier):
        """Fixed small shapes, always run: every body kind / feature once, alone and as keep-alive pair."""
        def R(m='GET', segs=('echo',), q=None, v='1.1', h=(), b=None, **kw):
            d = {'m': m, 'abs': False, 'segs': list(segs), 'slash': False, 'q': q, 'v': v, 'h': list(h), 'ctype': None,
                 'cookie': None, 'hostname': 'Host', 'hostval': 'a', 'host10': False, 'hostpos': 0, 'framepos': 0,
                 'conn': None, 'b': b or {'k': 'none'}}
            d.update(kw)
            return d

        def Bd(k, data='', **kw):
            d = {'k': k, 'data': data, 'clfmt': 0, 'enc': None, 'sizes': [], 'exts': [], 'hex': 0, 'last': '0',
                 'lastext': '', 'trailers': [], 'tecase': 0}
            d.update(kw)
            return d

        fold = {'n': 'X-Long', 'v': 'part1', 'pre': ' ', 'post': '', 'fold': [['  ', 'part2']]}
        plain = {'n': 'X-A', 'v': 'b', 'pre': ' ', 'post': '', 'fold': []}
        reqs = [
            R(q=[['a', '1']]),
            R(v='1.0', segs=()),
            R(h=[fold]),
            R('POST', b=Bd('clen', 'hello')),
            R('POST', b=Bd('clen', '')),
            R('POST', b=Bd('chunked', 'abcde', sizes=[3], exts=['', ';ext=1'])),
            R('POST', b=Bd('chunked', 'abc', trailers=[['X-T', '1']])),
            R('POST', b=Bd('chunked', '')),
            R('POST', b=Bd('chunked', 'abc', last='000', lastext=';x=1', hex=2)),
            R('PUT', h=[plain], b=Bd('clen', '0\r\n\r\nGET / HTTP/1.1\r\n\r\n')),
            R('POST', b=Bd('clen', 'hello hello hello', enc='gzip')),
            R('HEAD'),
            R(segs=('echo', 'p' * 9000)),
            R(q=[['a', 'v' * 8200]]),
            R('POST', h=[{'n': 'X-Long', 'v': 'h' * 7000, 'pre': ' ', 'post': '', 'fold': []}], b=Bd('clen', 'hello')),
            R('GET', abs=True, segs=('echo', 'a')),
        ]
        out = []
        for r in reqs:
            out.append({'side': 'server', 'reqs': [r], 'multi': [], 'iso': True})
        for i in range(len(reqs) - 2):
            out.append({'side': 'server', 'reqs': [reqs[i + 1], reqs[i]], 'multi': [[5, 11, 12]], 'iso': False})

        def P(code=200, v='1.1', h=(), b=None, **kw):
            d = {'v': v, 'code': code, 'reason': None, 'h': list(h), 'ctype': None, 'framepos': 0, 'conn': None,
                 'b': b or {'k': 'none'}}
            d.update(kw)
            return d

        resps = [
            P(b=Bd('clen', 'hello')),
            P(b=Bd('clen', '')),
            P(b=Bd('chunked', 'abcde', sizes=[3], exts=['', ';ext=1'])),
            P(b=Bd('chunked', 'abc', trailers=[['X-T', '1']])),
            P(b=Bd('chunked', '')),
            P(204),
            P(304, h=[plain]),
            P(v='1.0', b=Bd('close', 'until close')),
            P(404, h=[fold], b=Bd('clen', 'nope'), conn='close'),
            P(b=Bd('clen', 'hello hello hello', enc='gzip')),
        ]
        for r in resps:
            out.append({'side': 'client', 'resps': [r], 'multi': [], 'iso': True})
        for i in (0, 1, 2, 3):
            out.append({'side': 'client', 'resps': [resps[i + 1], resps[i]], 'multi': [[5, 11, 12]], 'iso': False})
        return out

    def exclude(self, spec, triggers):
        return spec, 0

    # -------------------------------------------------------------------------------------------- execution
    @staticmethod
    def _deliveries(msgs, multi, iso):
        """-> iterable of (label, [[pieces of message 0], [pieces of message 1], ...])"""
        datas = [m['bytes'] for m in msgs]
        longest = max(len(d) for d in datas)
        if longest > 6000:
            # size dimension (a request line / header longer than any read buffer): fixed-size reads, cuts around the
            # buffer-size marks and around every CRLF; the all-cuts sweep is quadratic and is done on the small shapes
            for sz in (512, 1024, 4096, 8192):
                yield ('%d-byte-reads' % sz, [[d[i:i + sz] for i in range(0, len(d), sz)] for d in datas])
            marks = [1, 2, 1023, 1024, 4095, 4096, 4097, 8189, 8190, 8191, 8192, 8193]
            for j in marks:
                yield ('cut@%d' % j, [G.split_at(d, [j]) if j < len(d) else [d] for d in datas])
            for back in (1, 2, 3, 4, 5):
                yield ('cut@end-%d' % back, [G.split_at(d, [len(d) - back]) for d in datas])
            fams = [G.derived_cuts(d) for d in datas]
            for f in range(3):
                yield (fams[0][f][0], [G.split_at(d, fams[i][f][1]) for i, d in enumerate(datas)])
                for c in fams[0][f][1][:6]:
                    yield ('cut@%d' % c, [G.split_at(d, [c]) if c < len(d) else [d] for d in datas])
            return
        for j in range(1, longest):
            yield ('cut@%d' % j, [G.split_at(d, [j]) for d in datas])
        yield ('byte-at-a-time', [[d[i:i + 1] for i in range(len(d))] for d in datas])
        fams = [G.derived_cuts(d) for d in datas]
        for f in range(len(fams[0])):
            yield (fams[0][f][0], [G.split_at(d, fams[i][f][1]) for i, d in enumerate(datas)])
        for mi, ints in enumerate(multi):
            yield ('multi%d%r' % (mi, [G.resolve_multi(ints, len(d)) for d in datas]),
                   [G.split_at(d, G.resolve_multi(ints, len(d))) for d in datas])
        if iso:
            for j in range(1, longest - 1):
                yield ('iso-byte@%d' % j, [G.split_at(d, [j, j + 1]) for d in datas])

    def execute(self, spec):
        if not spec.get('reqs') and not spec.get('resps'):
            return Result(True, classes=['empty'])
        with driver.captured_stderr():
            if spec['side'] == 'server':
                return self._exec_server(spec)
            return self._exec_client(spec)

    # ---- server
    def _exec_server(self, spec):
        n = len(spec['reqs'])
        msgs = [G.build_request(r, last=(i == n - 1)) for i, r in enumerate(spec['reqs'])]
        classes = ['side:server', 'seq:%d' % n]
        feats = set().union(*[m['feats'] for m in msgs])
        classes += sorted(f for f in feats if not f.startswith('method:'))
        run = ServerRun()
        try:
            whole = [[m['bytes']] for m in msgs]
            base, _ = run.deliver(whole)
            if base[-1][5]:
                return Result(False, 'no-quiescence', 'one-piece delivery: event loop never became quiescent', classes=classes)

            # ---- anchor: the baseline is not vacuous
            anchored = all(m['unambiguous'] for m in msgs)
            methods = [m['expect']['method'] for m in msgs]
            # C15 (not this property): a HEAD exchange leaves its (request, response) pair behind, so nothing that
            # follows a HEAD on the same connection is anchored
            upto = methods.index('HEAD') + 1 if 'HEAD' in methods else n
            if anchored:
                classes.append('anchored')
                for k, m in enumerate(msgs[:upto]):
                    reqs, out, closed, tables, exc, _ = base[k]
                    if len(reqs) != k + 1:
                        return Result(False, 'anchor-request-count',
                                      'one piece: %d request event(s) after %d well-formed request(s); output %r' % (
                                          len(reqs), k + 1, _status_lines(out)), classes=classes)
                    got = reqs[k]
                    e = m['expect']
                    for fld in ('method', 'path', 'qs', 'protocol', 'body'):
                        if got[fld] != e[fld]:
                            return Result(False, 'anchor-field', 'one piece: request %d %s = %r, sent %r' % (k, fld, got[fld], e[fld]),
                                          classes=classes)
                    if _norm_headers(got['headers']) != e['headers']:
                        return Result(False, 'anchor-field', 'one piece: request %d headers = %r, sent %r' % (
                            k, _norm_headers(got['headers']), e['headers']), classes=classes)
                    if exc:
                        return Result(False, 'anchor-exception', 'one piece: exception events %r' % (exc,), classes=classes)
                if upto == n:
                    raw = run.rig.output(run.last_sock)
                    dec, rest = httprig.decode_responses(raw, methods)
                    for k, (d, m) in enumerate(zip(dec, msgs)):
                        if not isinstance(d, dict) or d['status'] != 200 or d['body'] != m['expect']['response_body']:
                            return Result(False, 'anchor-response', 'one piece: reply %d is %r, expected 200 with body %r' % (
                                k, d if not isinstance(d, dict) else (d['status'], d['body'][:60]), m['expect']['response_body'][:60]),
                                classes=classes)
                    if rest:
                        return Result(False, 'anchor-response', 'one piece: %d stray bytes after the replies: %r' % (len(rest), rest[:60]),
                                      classes=classes)

            # ---- metamorphic: every segmentation == one piece
            n_deliv = 0
            for label, pieces in self._deliveries(msgs, spec.get('multi', []), spec.get('iso', False)):
                n_deliv += 1
                got, bad = run.deliver(pieces, base)
                if bad is None:
                    continue
                # confirm in isolation (fresh rig for both deliveries)
                r1, r2 = ServerRun(), ServerRun()
                try:
                    b2, _ = r1.deliver(whole)
                    g2, bad2 = r2.deliver(pieces, b2)
                finally:
                    r1.close()
                    r2.close()
                if bad2 is None:
                    return Result(True, inconclusive=True, classes=classes + ['unconfirmed-mismatch'])
                what = _describe_server(b2[bad2], g2[bad2])
                clause = 'segmented-differs:' + _clause_server(b2[bad2], g2[bad2])
                return Result(False, clause, 'delivery %s, state after message %d of %d differs: %s | %s' % (
                    label, bad2 + 1, n, what, _reads(pieces, msgs, bad2)), classes=classes)
            complete = all(len(base[k][0]) == k + 1 for k in range(n))
            nontrivial = complete and all(self._cuts_cover(m) for m in msgs)
            classes.append('deliveries:%s' % _bucket(n_deliv))
            return Result(True, nontrivial=nontrivial, classes=classes)
        finally:
            run.close()

    @staticmethod
    def _cuts_cover(m):
        labs = {lab for s, e, lab in m['regions'] if e - s >= 2}
        need = {'first-line', 'first-line-crlf', 'headers'}
        if any(lab == 'chunk-size' for _, _, lab in m['regions']) or any(lab == 'last-chunk' for _, _, lab in m['regions']):
            need |= {'last-chunk'}
        return need <= labs

    # ---- client
    def _exec_client(self, spec):
        msgs_all = [G.build_response(r) for r in spec['resps']]
        classes = ['side:client']
        out_nontrivial = False
        ndeliv = 0
        for Run in (ProtoRun, ClientRun):
            run = Run()
            try:
                # the sequence goes on only while the previous response completed (no pipelining)
                msgs = list(msgs_all)
                base, _ = run.deliver([[m['bytes']] for m in msgs])
                for k in range(len(msgs)):
                    if len(base[k][0]) != k + 1:
                        msgs = msgs[:k + 1]
                        break
                whole = [[m['bytes']] for m in msgs]
                base, _ = run.deliver(whole)
                if base[-1][3]:
                    return Result(False, 'no-quiescence', 'one-piece delivery (%s): never quiescent' % run.kind, classes=classes)
                complete = all(len(base[k][0]) == k + 1 for k in range(len(msgs)))
                if Run is ProtoRun:
                    classes.append('seq:%d' % len(msgs))
                    feats = set().union(*[m['feats'] for m in msgs])
                    classes += sorted(feats)
                    classes.append('client-completes' if complete else 'client-never-completes')
                # ---- anchor
                if all(m['unambiguous'] for m in msgs):
                    if Run is ProtoRun:
                        classes.append('anchored')
                    for k, m in enumerate(msgs):
                        rs, exc = base[k][0], base[k][1]
                        if len(rs) != k + 1:
                            return Result(False, 'anchor-response-count', 'one piece (%s): %d response event(s) after %d self-delimiting '
                                          'response(s)' % (run.kind, len(rs), k + 1), classes=classes)
                        e = m['expect']
                        got = rs[k]
                        for fld in ('status', 'version', 'body'):
                            if got[fld] != e[fld]:
                                return Result(False, 'anchor-field', 'one piece (%s): response %d %s = %r, sent %r' % (
                                    run.kind, k, fld, got[fld], e[fld]), classes=classes)
                        if _norm_headers(got['headers']) != e['headers']:
                            return Result(False, 'anchor-field', 'one piece (%s): response %d headers = %r, sent %r' % (
                                run.kind, k, _norm_headers(got['headers']), e['headers']), classes=classes)
                        if exc:
                            return Result(False, 'anchor-exception', 'one piece (%s): exception events %r' % (run.kind, exc), classes=classes)
                # ---- metamorphic
                for label, pieces in self._deliveries(msgs, spec.get('multi', []), spec.get('iso', False)):
                    if Run is ClientRun and (label.startswith('cut@') or label.startswith('iso-byte@')):
                        continue
                    ndeliv += 1
                    got, bad = run.deliver(pieces, base)
                    if bad is None:
                        continue
                    run2 = Run()
                    try:
                        b2, _ = run2.deliver(whole)
                        g2, bad2 = run2.deliver(pieces, b2)
                    finally:
                        run2.close()
                    if bad2 is None:
                        return Result(True, inconclusive=True, classes=classes + ['unconfirmed-mismatch'])
                    what = _describe_client(b2[bad2], g2[bad2])
                    field = 'events' if b2[bad2][0] != g2[bad2][0] else 'other'
                    return Result(False, 'client-segmented-differs:' + field,
                                  '%s: delivery %s, state after response %d of %d differs: %s | %s' % (
                                      run.kind, label, bad2 + 1, len(msgs), what, _reads(pieces, msgs, bad2)), classes=classes)
                if Run is ProtoRun:
                    out_nontrivial = complete and all(self._cuts_cover(m) for m in msgs)
            finally:
                run.close()
        classes.append('deliveries:%s' % _bucket(ndeliv))
        return Result(True, nontrivial=out_nontrivial, classes=classes)


def _clause_server(base, got):
    if base[0] != got[0]:
        if len(base[0]) != len(got[0]):
            return 'request-count'
        return 'request-fields'
    if base[1] != got[1]:
        return 'response-bytes'
    if base[2] != got[2]:
        return 'close'
    if base[3] != got[3]:
        return 'residue'
    if base[4] != got[4]:
        return 'exceptions'
    return 'quiescence'


def _reads(pieces, msgs, upto):
    """how messages 0..upto were cut: read sizes and the bytes around the first cut of each cut message"""
    out = []
    for k in range(upto + 1):
        lens = [len(p) for p in pieces[k]]
        if len(lens) == 1:
            out.append('msg %d: one read of %d' % (k + 1, lens[0]))
        else:
            c = lens[0]
            d = msgs[k]['bytes']
            out.append('msg %d: %d reads%s, first cut %r|%r' % (
                k + 1, len(lens), ' %r' % lens if len(lens) <= 6 else '', d[max(0, c - 6):c], d[c:c + 6]))
    return '; '.join(out)


def _bucket(n):
    for b in (50, 100, 200, 400, 800, 1600):
        if n <= b:
            return '<=%d' % b
    return '>1600'


PROP = C13()
