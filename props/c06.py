"""C06 — call()/wait() resume the caller exactly once with the result, leaving no residue.

Spec:
  {"driver": "tick"|"run", "roots": [EV, ...]}
  EV      = {"handlers": [SCRIPT, SCRIPT?]}                 slot 0 has priority 20, slot 1 priority 10
  SCRIPT  = {"actions": [ACTION, ...], "end": ["ret", v] | ["raise"]}
  ACTION  = ["yield", v|null] | ["call", EV, timeout, catch] | ["firewait", EV, timeout, catch] | ["waitname", EV, timeout, catch]
            | ["latewait", EV, timeout, catch, delay, byname]   (a helper task fires EV `delay` steps after the caller started waiting)
            | ["fire", EV]
Each EV is one call site = one unique event name (e<id>): programs are trees, hence acyclic, and by-name waits
are unambiguous. A script without yield/call/wait actions is a plain handler; otherwise a generator handler whose
final "ret" is a last ``yield v``. timeout -1 = none. catch: the caller catches TimeoutError and goes on.
"""
from hypothesis import strategies as st

from circuits import BaseComponent, Event
from circuits.core.handlers import handler as H
from circuits.core.manager import TimeoutError as CTimeout
from vlib import driver
from vlib.runner import Prop, Result

SUSP = ('call', 'firewait', 'waitname', 'latewait')


class Boom(Exception):
    pass


class helper(Event):
    pass


class watch(Event):
    pass


def G(eid, inst):
    """Key of one instance (copy) of event e<eid> in the log."""
    return eid * 4 + inst


def _walk(events, fn, depth=0):
    for e in events:
        fn(e, depth)
        for s in e['handlers']:
            for a in s['actions']:
                if a[0] in SUSP or a[0] == 'fire':
                    _walk([a[1]], fn, depth + 1)


def _number(spec):
    c = [0]
    t = [0]

    def tok(v):
        if v == 'T':
            t[0] += 1
            return 'v%d' % t[0]
        return v

    def f(e, depth):
        c[0] += 1
        e['id'] = c[0]
        for s in e['handlers']:
            for a in s['actions']:
                if a[0] == 'yield':
                    a[1] = tok(a[1])
                if a[0] == 'latewait' and a[4] < 0 and (a[2] < 0 or spec['driver'] == 'tick'):
                    a[4] = 0   # "never fired" without an effective time-out would hang by design
                if a[0] in ('call', 'firewait', 'waitname') and len(a) > 4 and (spec['driver'] == 'tick' or a[0] == 'waitname'):
                    a[4] = -1    # the second waiter needs a running loop (its time-out must be able to elapse)
                if len(spec.get('copies', [0])) > 1:
                    # two instances of every event name are in flight: by-name waits would be ambiguous by design
                    if a[0] == 'waitname':
                        a[0] = 'firewait'
                    if a[0] == 'latewait':
                        a[5] = False
            if s['end'][0] == 'stop' and _is_gen(s):
                s['end'][0] = 'ret'      # a generator handler runs after the dispatch: it cannot stop() it any more
            if s['end'][0] in ('ret', 'stop'):
                s['end'][1] = tok(s['end'][1])

    _walk(spec['roots'], f)
    return spec


VAL = st.sampled_from(['T', 'T', 'T', None, 0, ''])
TMO = st.sampled_from([-1, -1, -1, 0, 1, 2, 5])


def _ev_strategy(depth):
    def script_s(children):
        acts = [st.tuples(st.just('yield'), VAL).map(list)]
        if children is not None:
            acts += [st.tuples(st.sampled_from(['call', 'call', 'firewait', 'waitname']), children, TMO, st.booleans(),
                               st.sampled_from([-1, -1, -1, 0, 1, 2, 3])).map(list),
                     st.tuples(st.just('latewait'), children, TMO, st.booleans(), st.sampled_from([0, 1, 3, -1]), st.booleans()).map(list),
                     st.tuples(st.just('fire'), children).map(list)]
        return st.fixed_dictionaries({
            'actions': st.lists(st.one_of(*acts), max_size=3),
            'end': st.one_of(st.tuples(st.just('ret'), VAL).map(list), st.tuples(st.just('ret'), VAL).map(list),
                             st.just(['raise']), st.tuples(st.just('stop'), VAL).map(list)),
        })

    def event_s(children):
        return st.fixed_dictionaries({'handlers': st.lists(script_s(children), min_size=1, max_size=2)})

    s = event_s(None)
    for _ in range(depth):
        s = event_s(s)
    return s


def _is_gen(script):
    return any(a[0] in SUSP or a[0] == 'yield' for a in script['actions'])


class C06(Prop):
    id = 'C06'
    rule = ('tree-shaped (hence acyclic) programs: each handler is a script of yield / call(e) / fire+wait(e object) / '
            'fire+wait("name") / fire actions, nested to depth<=3 (quick) or 4, time-outs from {none,0,1,2,5} with or without '
            'the caller catching TimeoutError, callees that return, yield k times, or raise before/after yielding, 1-2 '
            'handlers per event, 1-3 root events in flight, event classes with success_channels, callers/callees on different channels; plus enumerated nestings of 30..1500 (thorough 3000) calls; run under real run() (time-outs count loop iterations) and '
            'tick(); non-trivial = (call depth >=2 or >=2 roots) and (a callee with a raising handler, or a finite time-out '
            'that raced the callee: resumed/timed out within one iteration of the limit); distinct = spec hash')
    assumptions = ('each event name is used at exactly one call site, so by-name waits are unambiguous',
                   'the event waited for is always fired in the same handler step right before the wait (waiting for an '
                   'event that was already dispatched hangs by design: upstream issue #226)',
                   'when both the result and TimeoutError are permitted either is accepted',
                   'under tick() no generate_events is fired, so time-outs never elapse and the result must win')
    budget = {'quick': (1500, 4), 'thorough': (35000, 16)}

    shrink_lists = {'roots': 1, 'handlers': 1, 'actions': 0}

    def setup(self):
        driver.quiet_process()

    def normalize(self, spec):
        return spec if 'deep' in spec else _number(spec)

    def strategy(self, tier):
        e = _ev_strategy(2 if tier == 'quick' else 3)
        return st.fixed_dictionaries({
            'driver': st.sampled_from(['run', 'run', 'tick']),
            'roots': st.lists(e, min_size=1, max_size=3),
            'copies': st.sampled_from([[0], [0], [0, 0], [0, 1], [0, 2], [0, 3]]),
            'chan': st.booleans(),
            'succ': st.sampled_from([0, 0, 1, 2]),
        }).map(_number)

    # ------------------------------------------------------------------
    def _run_real(self, spec):
        log = []
        it = [0]
        evclass = {}
        especs = {}
        _walk(spec['roots'], lambda e, d: especs.__setitem__(e['id'], e))

        def make(es, inst):
            cls = evclass.get(es['id'])
            if cls is None:
                ns = {'success': True}
                if spec.get('succ') == 1 or (spec.get('succ') == 2 and es['id'] % 2):
                    # the event class sends its success notification elsewhere (as circuits.node does); where the
                    # waiting caller is resumed from is unaffected
                    ns['success_channels'] = ('s',)
                cls = evclass[es['id']] = type(Event)('e%d' % es['id'], (Event,), ns)
            return cls(inst)

        def tag(v, inst):
            # results carry the instance they belong to, so that a mix-up between concurrent copies is visible
            return '%s#%d' % (v, inst) if isinstance(v, str) and v.startswith('v') else v

        two = bool(spec.get('chan'))

        def CH(eid):
            """Channel an event is addressed to: in two-channel mode even ids are handled by the root (channel 'a'), odd ids by
            a child component (channel 'b'); otherwise everything lives on '*'."""
            return () if not two else (('b',) if eid % 2 else ('a',))

        HC = ('a',) if two else ()

        class Sub(BaseComponent):
            pass

        class App(BaseComponent):
            @H('exception', channel='*')
            def _x(self, etype, evalue, tb, handler=None, fevent=None):
                if not isinstance(evalue, (Boom, CTimeout)):
                    log.append(('stray', repr(evalue)))

            @H('generate_events', priority=100)
            def _count(self, event):
                it[0] += 1

            @H('watch')
            def _watch(self, ce, timeout):
                try:
                    yield self.wait(ce, *CH(int(ce.name[1:])), timeout=timeout)
                    log.append(('watch-resumed',))
                except CTimeout:
                    log.append(('watch-timeout',))

            @H('helper')
            def _helper(self, ce, delay):
                if delay < 0:
                    return   # nobody ever fires the awaited event
                for _ in range(delay):
                    yield None
                self.fire(ce, *CH(int(ce.name[1:])))

        app = App(channel='a' if two else '*')
        sub = Sub(channel='b' if two else '*').register(app)
        driver.settle(app, 10)
        evobj = {}
        watched = [0]

        def snap_value(v):
            val = v.value
            out = []
            for g in (val if isinstance(val, list) else ([] if val is None else [val])):
                if isinstance(g, tuple) and len(g) == 3 and isinstance(g[1], BaseException):
                    out.append(('ERR', g[1].args[0][1] if isinstance(g[1], Boom) else type(g[1]).__name__))
                else:
                    out.append(g)
            return {'list': isinstance(val, list), 'items': out, 'errors': bool(v.errors)}

        def mk(es, slot, script):

            def body_gen(self, inst):
                eid = G(es['id'], inst)
                for k, a in enumerate(script['actions']):
                    kind = a[0]
                    if kind == 'yield':
                        log.append(('yield', eid, slot, tag(a[1], inst)))
                        yield tag(a[1], inst)
                    elif kind == 'fire':
                        ce = evobj[G(a[1]['id'], inst)] = make(a[1], inst)
                        self.fire(ce, *CH(a[1]['id']))
                    else:
                        cs, timeout, catch = a[1], a[2], a[3]
                        site = G(cs['id'], inst)
                        kw = {} if timeout < 0 else {'timeout': timeout}
                        log.append(('suspend', site, it[0], timeout))
                        try:
                            ce = evobj[site] = make(cs, inst)
                            if kind in ('call', 'firewait') and len(a) > 4 and a[4] >= 0:
                                # a second handler waits for the SAME event object, with its own (short) time-out
                                self.fire(watch(ce, a[4]), *HC)
                                watched[0] += 1
                                yield None      # one step, so that the second waiter is installed before ce is dispatched
                            if kind == 'call':
                                r = yield self.call(ce, *CH(cs['id']), **kw)
                            elif kind == 'firewait':
                                self.fire(ce, *CH(cs['id']))
                                r = yield self.wait(ce, **kw)
                            elif kind == 'latewait':
                                self.fire(helper(ce, a[4]), *HC)
                                r = yield self.wait(ce.name if a[5] else ce, *CH(cs['id']), **kw)
                            else:
                                self.fire(ce, *CH(cs['id']))
                                r = yield self.wait(ce.name, *CH(cs['id']), **kw)
                            log.append(('resumed', site, it[0], snap_value(r)))
                        except CTimeout:
                            log.append(('timeout', site, it[0]))
                            if not catch:
                                log.append(('hend', eid, slot, 'timeout-uncaught'))
                                raise
                if script['end'][0] == 'ret':
                    log.append(('yield', eid, slot, tag(script['end'][1], inst)))
                    yield tag(script['end'][1], inst)
                    log.append(('hend', eid, slot, 'ok'))
                else:
                    log.append(('hend', eid, slot, 'raise'))
                    raise Boom((eid, slot))

            def body_plain(self, event, inst):
                eid = G(es['id'], inst)
                for a in script['actions']:
                    ce = evobj[G(a[1]['id'], inst)] = make(a[1], inst)
                    self.fire(ce, *CH(a[1]['id']))
                if script['end'][0] in ('ret', 'stop'):
                    if script['end'][0] == 'stop':
                        event.stop()    # lower-priority handlers of this event are skipped
                    log.append(('ret', eid, slot, tag(script['end'][1], inst)))
                    log.append(('hend', eid, slot, 'ok'))
                    return tag(script['end'][1], inst)
                log.append(('hend', eid, slot, 'raise'))
                raise Boom((eid, slot))

            gen = _is_gen(script)

            @H('e%d' % es['id'], priority=20 - 10 * slot)
            def f(self, event, inst):
                log.append(('hstart', G(es['id'], inst), slot))
                return body_gen(self, inst) if gen else body_plain(self, event, inst)
            f.__name__ = 'h%d_%d' % (es['id'], slot)
            return f

        def mk_succ(eid):
            @H('e%d_success' % eid, channel='*')
            def s(self, e, value):
                log.append(('success', G(eid, e.args[0])))
            s.__name__ = 's%d' % eid
            return s

        for eid, es in especs.items():
            for slot, script in enumerate(es['handlers']):
                (sub if two and eid % 2 else app).addHandler(mk(es, slot, script))
            app.addHandler(mk_succ(eid))

        def snapshot():
            hs = {k: sorted(h.__name__ for h in v) for k, v in app._handlers.items()}
            hs.update({'sub:' + k: sorted(h.__name__ for h in v) for k, v in sub._handlers.items()})
            return (hs, len(app._tasks), len(app._globals) + len(sub._globals))

        exhausted = False
        escaped = None
        before = snapshot()
        quiet = [0]

        def extra():
            quiet[0] += 1
            return quiet[0] >= 9

        def on_iter(n):
            if len(app._queue) or app._tasks:
                quiet[0] = 0

        with driver.captured_stderr() as err:
            try:
                for inst, delay in enumerate(spec.get('copies', [0])):
                    for es in spec['roots']:
                        ce = evobj[G(es['id'], inst)] = make(es, inst)
                        if delay == 0:
                            app.fire(ce, *CH(es["id"]))
                        else:
                            app.fire(helper(ce, delay), *HC)
                if spec['driver'] == 'tick':
                    exhausted = driver.settle(app, 600) < 0
                else:
                    idle = driver.run_to_quiescence(app, max_iter=600, extra=extra, on_iter=on_iter)
                    exhausted = idle.exhausted or idle.blocked > 0
            except BaseException as e:  # noqa
                escaped = repr(e)
        after = snapshot()
        if spec['driver'] == 'run':
            # run() registered an Idle child; App's own tables are what is compared
            pass
        final = {eid: snap_value(e.value) for eid, e in evobj.items() if getattr(e, 'value', None) is not None}
        if watched[0]:
            log.append(('watched', watched[0]))
        return log, especs, before, after, final, exhausted, escaped, err.getvalue()

    # ------------------------------------------------------------------
    def _deep(self, spec):
        """{"deep": N, "how": "call"|"firewait", "leaf": "value"|"raise", "driver": "tick"}: N nested calls, each handler
        suspended on the next ("nested to any depth").  Judged without recursion: every caller resumed exactly once,
        innermost first, each with its callee's result (or error flag), root value set, no task / temporary handler left."""
        n, how, leaf = spec['deep'], spec.get('how', 'call'), spec.get('leaf', 'value')
        log = []

        class link(Event):
            pass

        class App(BaseComponent):
            @H('link')
            def _l(self, event, k):
                if k == n:
                    if leaf == 'raise':
                        raise Boom('leaf')
                    yield 'v%d' % k
                    return
                ce = link(k + 1)
                if how == 'call':
                    v = yield self.call(ce)
                else:
                    self.fire(ce)
                    v = yield self.wait(ce)
                log.append(('r', k, v.value if not v.errors else 'ERR', bool(v.errors)))
                yield 'v%d' % k

            @H('exception', channel='*')
            def _x(self, etype, evalue, tb, handler=None, fevent=None):
                if not isinstance(evalue, Boom):
                    log.append(('x', repr(evalue)[:120]))

        app = App()
        driver.settle(app, 10)
        before = {k: sorted(h.__name__ for h in v) for k, v in app._handlers.items()}
        escaped = None
        root = link(0)
        with driver.captured_stderr() as err:
            try:
                app.fire(root)
                exhausted = driver.settle(app, 10 * n + 100) < 0
            except BaseException as e:  # noqa
                escaped = repr(e)[:200]
        classes = ['deep-nesting', 'deep>=1000' if n >= 1000 else 'deep<1000', 'deep:' + how, 'deep-leaf:' + leaf]

        def bad(clause, msg):
            return Result(False, clause, '%s [%d nested %s, leaf %s]' % (msg, n, how, leaf), True, classes)
        if escaped:
            return bad('exception-escaped', 'exception escaped the loop: %s' % escaped)
        xs = [l for l in log if l[0] == 'x']
        if xs:
            return bad('stray-exception', 'exception event: %s' % xs[0][1])
        if exhausted:
            return bad('no-quiescence', 'loop did not become quiescent within the iteration bound')
        rs = [l for l in log if l[0] == 'r']
        if [l[1] for l in rs] != list(range(n - 1, -1, -1)):
            got = [l[1] for l in rs]
            return bad('never-resumed' if len(got) < n else 'resumed-twice', '%d of %d callers resumed (first ones: %r)' % (len(got), n, got[:5]))
        for _, k, v, errs in rs:
            want = ('ERR', True) if (leaf == 'raise' and k == n - 1) else ('v%d' % (k + 1), False)
            if (('ERR' if errs else v), errs) != want:
                return bad('wrong-result', 'caller %d resumed with %r errors=%r, expected %r' % (k, v, errs, want))
        if root.value.value != 'v0':
            return bad('caller-value', 'root event value %r, expected v0' % (root.value.value,))
        if app._tasks:
            return bad('residue-tasks', '%d tasks left at quiescence' % len(app._tasks))
        after = {k: sorted(h.__name__ for h in v) for k, v in app._handlers.items() if v}
        if after != {k: v for k, v in before.items() if v}:
            return bad('residue-handlers', 'handler tables differ at quiescence: %r' % ({k: v for k, v in after.items() if before.get(k) != v},))
        if err.getvalue().strip():
            return bad('stderr', 'error output: %s' % err.getvalue()[-200:])
        return Result(True, nontrivial=True, classes=classes)

    def enumerate(self, tier):
        out = []
        for n in ((30, 1500) if tier == 'quick' else (30, 999, 1500, 3000)):
            for how in ('call', 'firewait'):
                for leaf in ('value', 'raise'):
                    out.append({'deep': n, 'how': how, 'leaf': leaf, 'driver': 'tick'})
        return out

    def execute(self, spec):
        if 'deep' in spec:
            return self._deep(spec)
        log, especs, before, after, final, exhausted, escaped, errout = self._run_real(spec)
        drv = spec['driver']

        def bad(clause, msg):
            return Result(False, clause, '%s [driver=%s]' % (msg, drv))

        if escaped:
            return bad('exception-escaped', 'exception escaped the loop: %s' % escaped)
        if exhausted:
            return bad('no-quiescence', 'loop did not become quiescent within the iteration bound')
        stray = [l for l in log if l[0] == 'stray']
        if stray:
            return bad('stray-exception', 'unexpected exception event: %r' % (stray[:2],))

        depth = {}
        _walk(spec['roots'], lambda e, d: depth.__setitem__(e['id'], d))
        started = {}
        for k, l in enumerate(log):
            if l[0] == 'hstart':
                started.setdefault(l[1], []).append(l[2])
        hend = {}
        for k, l in enumerate(log):
            if l[0] == 'hend':
                hend[(l[1], l[2])] = (k, l[3])

        raced = False
        failing_callee = False
        # ---- every suspension point: exactly once, only after the callee finished, with its result
        for k, l in enumerate(log):
            if l[0] != 'suspend':
                continue
            site, it0, timeout = l[1], l[2], l[3]
            outcomes = [(j, m) for j, m in enumerate(log) if m[0] in ('resumed', 'timeout') and m[1] == site]
            if len(outcomes) == 0:
                return bad('never-resumed', 'handler suspended on %s (timeout %s) was never resumed although the system is quiescent' % (N(site), timeout))
            if len(outcomes) > 1:
                return bad('resumed-twice', 'handler suspended on %s was resumed %d times: %r' % (N(site), len(outcomes), [m[0] for _, m in outcomes]))
            j, m = outcomes[0]
            ces = especs[site // 4]
            if m[0] == 'timeout':
                if timeout < 0:
                    return bad('timeout-unrequested', 'TimeoutError without a timeout on %s' % N(site))
                if m[2] - it0 < timeout:
                    return bad('timeout-early', 'TimeoutError on %s after %d iterations, timeout was %d' % (N(site), m[2] - it0, timeout))
                if m[2] - it0 <= timeout + 2:
                    ends = [hend.get((site, s)) for s in _should(ces)]
                    if all(e is not None for e in ends):
                        raced = True
            else:
                # callee: all handlers started and finished before the resume
                if sorted(started.get(site, [])) != _should(ces):
                    return bad('resumed-before-dispatch', 'caller resumed on %s before all its handlers ran' % N(site))
                for s in _should(ces):
                    e = hend.get((site, s))
                    if e is None or e[0] > j:
                        return bad('resumed-early', 'caller resumed on %s before its handler %d finished' % (N(site), s))
                exp = self._expected(log, site, ces)
                got = m[3]
                if _ms(got['items']) != _ms(exp['items']):
                    return bad('wrong-result', 'caller of %s received %r, callee produced %r' % (N(site), got['items'], exp['items']))
                if len(exp['items']) > 0 and got['list'] != (len(exp['items']) > 1):
                    return bad('wrong-result-shape', 'caller of %s received list=%r for %d results' % (N(site), got['list'], len(exp['items'])))
                if got['errors'] != exp['errors']:
                    return bad('wrong-errors-flag', 'caller of %s received errors=%r, expected %r' % (N(site), got['errors'], exp['errors']))
                if exp['errors']:
                    failing_callee = True
                if timeout >= 0 and abs((m[2] - it0) - timeout) <= 2:
                    raced = True

        # ---- every event that was fired completes like a synchronous evaluation
        for eid in sorted(set(final) | set(started)):
            es = especs[eid // 4]
            if eid not in final and eid not in started:
                continue  # its call site was never reached (caller raised / timed out before)
            hs = es['handlers']
            if sorted(started.get(eid, [])) != _should(es):
                return bad('handler-skipped', 'event %s: handlers started %r' % (N(eid), started.get(eid)))
            for s in _should(es):
                if (eid, s) not in hend:
                    return bad('handler-unfinished', 'event %s handler %d never finished (suspended for ever?)' % (N(eid), s))
            exp = self._expected(log, eid, es)
            got = final.get(eid)
            if got is not None:
                if _ms(got['items']) != _ms(exp['items']):
                    return bad('event-value', 'event %s: value %r, handlers produced %r' % (N(eid), got['items'], exp['items']))
                if got['errors'] != exp['errors']:
                    return bad('event-errors-flag', 'event %s: errors=%r expected %r' % (N(eid), got['errors'], exp['errors']))
            ns = sum(1 for l in log if l[0] == 'success' and l[1] == eid)
            if ns != (0 if exp['errors'] else 1):
                return bad('success-count', 'event %s: %d success events, raised=%r' % (N(eid), ns, exp['errors']))
            if ns:
                ks = [k for k, l in enumerate(log) if l[0] == 'success' and l[1] == eid][0]
                if any(hend[(eid, s)][0] > ks for s in _should(es)):
                    return bad('success-early', 'event %s: success before its last handler finished' % N(eid))

        # ---- residue
        if after[1] != 0:
            return bad('residue-tasks', '%d tasks left at quiescence' % after[1])
        if before[0] != after[0] or before[2] != after[2]:
            diff = {k: v for k, v in after[0].items() if before[0].get(k) != v}
            gone = [k for k in before[0] if k not in after[0]]
            return bad('residue-handlers', 'handler tables differ at quiescence: extra/changed %r, missing %r' % (diff, gone))
        if errout.strip():
            return bad('stderr', 'unexpected error output: %s' % errout[-300:])

        susp = [l for l in log if l[0] == 'suspend']
        maxdepth = max([depth[l[1] // 4] for l in susp], default=0)
        copies = spec.get('copies', [0])
        nontrivial = bool(susp) and (maxdepth >= 2 or len(spec['roots']) * len(copies) >= 2) and (failing_callee or raced)
        classes = ['driver:' + drv]
        if susp:
            classes.append('has-suspension')
        if any(l[0] == 'timeout' for l in log):
            classes.append('timeout-delivered')
        if failing_callee:
            classes.append('failing-callee')
        if raced:
            classes.append('timeout-race')
        if maxdepth >= 2:
            classes.append('depth>=2')
        if len(copies) > 1:
            classes.append('two-copies-in-flight')
        if spec.get('chan'):
            classes.append('callers-and-callees-on-different-channels')
        if spec.get('succ'):
            classes.append('events-with-success_channels')
        if any(l[0] == 'watched' for l in log):
            classes.append('second-waiter-on-same-event')
        if any(l[0] == 'watch-timeout' for l in log):
            classes.append('second-waiter-timed-out')
        return Result(True, nontrivial=nontrivial, classes=classes)

    @staticmethod
    def _expected(log, eid, es):
        items = []
        errors = False
        for l in log:
            if l[1:2] != (eid,):
                continue
            if l[0] in ('ret', 'yield') and l[3] is not None:
                items.append(l[3])
            elif l[0] == 'hend' and l[3] == 'raise':
                items.append(('ERR', l[2]))
                errors = True
            elif l[0] == 'hend' and l[3] == 'timeout-uncaught':
                items.append(('ERR', 'TimeoutError'))
                errors = True
        return {'items': items, 'errors': errors}


PROP = C06()


def _should(es):
    """Slots of the handlers that must run: all, up to and including the first plain handler that stop()s the event."""
    out = []
    for i, sc in enumerate(es['handlers']):
        out.append(i)
        if sc['end'][0] == 'stop' and not _is_gen(sc):
            break
    return out


def _ms(items):
    """Multiset view (the order among different handlers' results is C04's business, not C06's)."""
    return sorted((type(x).__name__, repr(x)) for x in items)


def N(g):
    return 'e%d#%d' % (g // 4, g % 4)
