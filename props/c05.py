"""C05 — `<name>_complete` fires exactly once, after the whole causal closure has drained.

Spec:
  {"driver": "tick"|"run", "roots": [EV, ...]}
  EV = {"complete": bool, "cchan": null|"x", "cancel": bool, "handlers": [H, ...]}      (1..3; slot i has priority 30-10*i)
  H  = {"kind": "plain"|"raise"|"stop"|"gen"|"genraise", "fire": [EV, ...], "steps": [[EV, ...], ...]}
"fire" children are fired when the handler starts; for generator kinds each entry of "steps" is one later step
that fires its children (a list of EV), or {"call": EV, "kids": [EV, ...]}: ``yield self.call(EV)`` and then fire the kids. "cancel" = the firing handler cancels the event right after firing it
(never set on roots or on complete-requesting events).
"""
from hypothesis import strategies as st

from circuits import BaseComponent, Event, sleep
from circuits.core.handlers import handler as H
from vlib import driver
from vlib.runner import Prop, Result

SLOTS = 3


class Boom(Exception):
    pass


class ev(Event):
    pass


class orphan(Event):
    """An event nobody has a handler for (a legal leaf of a causal tree)."""


class xclean(Event):
    """Clean-up work fired by the application's `exception` handler (spec flag xfire)."""


def _walk(events, fn, parent=None):
    for e in events:
        fn(e, parent)
        for h in e['handlers']:
            _walk(h.get('fire', []), fn, e)
            for s in h.get('steps', []):
                if isinstance(s, dict):
                    _walk([s['call']], fn, e)
                    _walk(s['kids'], fn, e)
                else:
                    _walk(s, fn, e)


def _number(spec):
    c = [0]

    def f(e, parent):
        c[0] += 1
        e['id'] = c[0]
        if parent is None or e['complete']:
            e['cancel'] = False
        if e.get('orphan'):
            if parent is None or e['complete']:
                e['orphan'] = False          # roots and completion-requesting events keep their handlers
            else:
                e['handlers'] = [{'kind': 'plain', 'fire': [], 'steps': []}]   # never run: nobody handles an orphan
        for h in e['handlers']:
            for s in h.get('steps', []):
                if isinstance(s, dict):
                    s['call']['cancel'] = False   # a cancelled callee would (by design) never resume its caller

    _walk(spec['roots'], f)
    return spec


def _refirable(spec):
    """roots whose own handlers never stop() them (a stopped event object stays stopped; what firing it again means is not stated)"""
    return bool(spec.get('refire')) and not any(h['kind'] == 'stop' for es in spec['roots'] for h in es['handlers'])


def _ev_strategy(depth, root=False):
    def handler_s(children, child=None):
        return st.fixed_dictionaries({
            'kind': st.sampled_from(['plain', 'plain', 'plain', 'raise', 'stop', 'gen', 'gen', 'genraise']),
            'fire': children,
            'sleep': st.sampled_from([False, False, True]),
            'steps': st.lists(st.one_of(children, children, st.fixed_dictionaries({'call': child, 'kids': children})), max_size=2)
            if child is not None else st.lists(children, max_size=2),
        })

    def event_s(children, complete, child=None):
        return st.fixed_dictionaries({
            'complete': complete,
            'cchan': st.sampled_from([None, None, None, 'x']),
            'cancel': st.sampled_from([False, False, False, True]),
            'orphan': st.sampled_from([False] * 7 + [True]),
            'handlers': st.lists(handler_s(children, child), min_size=1, max_size=SLOTS),
        })

    inner_complete = st.sampled_from([False, False, False, True])
    s = event_s(st.just([]), inner_complete)
    for d in range(depth):
        s = event_s(st.lists(s, max_size=2), inner_complete if d < depth - 1 else st.sampled_from([True, True, True, False]), child=s)
    return s


class C05(Prop):
    id = 'C05'
    rule = ('forests of events: 1-3 roots (mostly complete=True), handlers (plain / raising / stop() / generator / raising '
            'generator) firing children at start and from later generator steps (fan-out<=2 per site, depth<=3/4), nested '
            'complete-requesting descendants, complete_channels, descendants cancelled right after being fired, generator steps that pause with sleep(0) or call() an event, optionally the same root event objects fired a second time after everything drained; plus enumerated chains of 40..1500 (thorough 4000) links; under '
            'tick() and run(); non-trivial = a complete-requesting event whose closure has >=3 fired events including an '
            'abnormal member (cancelled, stopped, raising, or fired from a generator step); distinct = spec hash')
    assumptions = ('ghost causality = the spec tree (a child belongs to the event whose handler fired it)',
                   'cancelled events never themselves request completion (what that should mean is not stated)',
                   'events that circuits fires internally (exception, *_failure) are effects too; they only delay completion')
    budget = {'quick': (900, 4), 'thorough': (10000, 16)}

    shrink_lists = {'roots': 1, 'handlers': 1, 'fire': 0, 'steps': 0}

    def setup(self):
        driver.quiet_process()

    def normalize(self, spec):
        return spec if 'deep' in spec else _number(spec)

    def enumerate(self, tier):
        """Depth dimension: chains far deeper than any recursion the dispatcher could afford (default recursion limit 1000)."""
        out = []
        for n in ((40, 1500) if tier == 'quick' else (40, 999, 1500, 4000)):
            for drv in ('tick', 'run'):
                out.append({'deep': n, 'inner': [], 'driver': drv})
                out.append({'deep': n, 'inner': [n // 2, n - 1, n], 'driver': drv})
        return out

    def strategy(self, tier):
        e = _ev_strategy(2 if tier == 'quick' else 3)
        return st.fixed_dictionaries({
            'driver': st.sampled_from(['tick', 'run']),
            'xfire': st.sampled_from([False, False, True]),
            'refire': st.sampled_from([False, False, True]),
            'roots': st.lists(e, min_size=1, max_size=3),
        }).map(_number)

    # ------------------------------------------------------------------
    def _run_real(self, spec):
        log = []

        def make(es):
            e = orphan(es) if es.get('orphan') else ev(es)
            if es['complete']:
                e.complete = True
                if es['cchan']:
                    e.complete_channels = (es['cchan'],)
            return e

        def fire_children(comp, children, via):
            for cs in children:
                c = make(cs)
                log.append(('fired', cs['id'], via))
                comp.fire(c)
                if cs['cancel']:
                    c.cancel()
                    log.append(('cancel', cs['id']))

        class App(BaseComponent):
            def fireEvent(self, event, *channels, **kwargs):
                if event.name == 'ev_complete':
                    log.append(('fire_complete', event.args[0].args[0]['id']))
                return super().fireEvent(event, *channels, **kwargs)

            fire = fireEvent

            @H('ev_complete', channel='*')
            def _c(self, event, e, value):
                log.append(('complete', e.args[0]['id'], event.channels))

            @H('exception', channel='*')
            def _x(self, etype, evalue, tb, handler=None, fevent=None):
                if not isinstance(evalue, Boom):
                    log.append(('stray', repr(evalue)))
                elif spec.get('xfire'):
                    # the application's error handler reacts by firing clean-up work: fired (transitively) while handling
                    # the event whose handler raised, hence part of every closure that event belongs to
                    self.fire(xclean(evalue.args[0][0], 1))

            @H('xclean')
            def _xc(self, eid, more):
                log.append(('step', eid, 'xclean', more))       # counts as activity of the event that raised
                if more:
                    self.fire(xclean(eid, 0))

        app = App()

        def mk(slot):
            def gen(self, es, h):
                for i, s in enumerate(h['steps']):
                    if isinstance(s, dict):
                        # a later step that calls an event and goes on firing after the call returned
                        c = make(s['call'])
                        log.append(('fired', s['call']['id'], 'call'))
                        yield self.call(c)
                        if h.get('sleep'):
                            yield sleep(0)       # pauses, e.g. for rate limiting, are further steps of the handler
                        log.append(('step', es['id'], slot, i))
                        fire_children(self, s['kids'], 'step')
                    else:
                        yield (sleep(0) if h.get('sleep') else None)
                        log.append(('step', es['id'], slot, i))
                        fire_children(self, s, 'step')
                log.append(('hend', es['id'], slot))
                if h['kind'] == 'genraise':
                    raise Boom((es['id'], slot))

            @H('ev', priority=30 - 10 * slot)
            def f(self, event, es):
                if slot >= len(es['handlers']):
                    return None
                h = es['handlers'][slot]
                log.append(('hstart', es['id'], slot))
                fire_children(self, h['fire'], 'start')
                k = h['kind']
                if k in ('gen', 'genraise'):
                    return gen(self, es, h)
                log.append(('hend', es['id'], slot))
                if k == 'raise':
                    raise Boom((es['id'], slot))
                if k == 'stop':
                    event.stop()
                return None
            f.__name__ = 'slot%d' % slot
            return f

        for slot in range(SLOTS):
            app.addHandler(mk(slot))

        exhausted = False
        escaped = None
        phases = []
        roots = [make(es) for es in spec['roots']]
        with driver.captured_stderr() as err:
            try:
                # spec flag "refire": once everything has drained the very same root event objects are fired again
                # (what a persistent Timer does with its event); the second firing is owed the same guarantees
                for phase in range(2 if _refirable(spec) else 1):
                    for es, e in zip(spec['roots'], roots):
                        log.append(('fired', es['id'], 'root'))
                        app.fire(e)
                    if spec['driver'] == 'tick':
                        exhausted = driver.settle(app, 400) < 0
                    else:
                        idle = driver.run_to_quiescence(app, max_iter=400)
                        exhausted = idle.exhausted or idle.blocked > 0
                    phases.append(list(log))
                    del log[:]
                    if exhausted:
                        break
            except BaseException as e:  # noqa
                escaped = repr(e)
                phases.append(list(log))
        return phases, exhausted, escaped, err.getvalue()

    # ------------------------------------------------------------------
    def _deep(self, spec):
        """{"deep": N, "inner": [depths...], "driver": ...}: a chain of N events, each fired by the handler of the one before;
        the top one and the links at the ``inner`` depths ask for completion.  Judged iteratively (the harness must not
        need more stack than the code under test): every link dispatched once, each complete exactly once and only
        after the last link of the chain (which is the end of every closure here)."""
        n = spec['deep']
        inner = set(spec.get('inner', []))
        log = []

        class link(Event):
            pass

        class clink(Event):
            complete = True

        class App(BaseComponent):
            @H('link', 'clink')
            def _l(self, event, k):
                log.append(('d', k))
                if k < n:
                    self.fire((clink if (k + 1) in inner else link)(k + 1))

            @H('clink_complete')
            def _c(self, event, e, value):
                log.append(('c', e.args[0], len([1 for l in log if l[0] == 'd'])))

            @H('exception', channel='*')
            def _x(self, etype, evalue, tb, handler=None, fevent=None):
                log.append(('x', repr(evalue)[:120]))

        app = App()
        driver.settle(app, 10)
        escaped = None
        with driver.captured_stderr() as err:
            try:
                app.fire(clink(0))
                if spec.get('driver') == 'run':
                    idle = driver.run_to_quiescence(app, max_iter=n + 50)
                    exhausted = idle.exhausted or idle.blocked > 0
                else:
                    exhausted = driver.settle(app, n + 50) < 0
            except BaseException as e:  # noqa
                escaped = repr(e)[:200]
        classes = ['deep-chain', 'deep>=1000' if n >= 1000 else 'deep<1000']

        def bad(clause, msg):
            return Result(False, clause, '%s [deep chain of %d, complete at %s, driver=%s]' % (msg, n, sorted(inner | {0}), spec.get('driver')), True, classes)
        if escaped:
            return bad('exception-escaped', 'exception escaped the loop: %s' % escaped)
        xs = [l for l in log if l[0] == 'x']
        if xs:
            return bad('stray-exception', 'exception event: %s' % xs[0][1])
        if err.getvalue().strip():
            return bad('stderr', 'error output: %s' % err.getvalue()[-200:])
        if exhausted:
            return bad('no-quiescence', 'loop did not become quiescent')
        ds = [l[1] for l in log if l[0] == 'd']
        if ds != list(range(n + 1)):
            return bad('event-lost', '%d links dispatched, expected %d, each once and in order' % (len(ds), n + 1))
        for k in sorted(inner | {0}):
            cs = [l for l in log if l[0] == 'c' and l[1] == k]
            if len(cs) != 1:
                return bad('complete-missing' if not cs else 'complete-twice', 'link %d: complete dispatched %d times' % (k, len(cs)))
            if cs[0][2] != n + 1:
                return bad('complete-early', 'link %d: complete dispatched after %d of %d links' % (k, cs[0][2], n + 1))
        return Result(True, nontrivial=True, classes=classes)

    def execute(self, spec):
        if 'deep' in spec:
            return self._deep(spec)
        phases, exhausted, escaped, errout = self._run_real(spec)
        res = None
        for n, log in enumerate(phases):
            res = self._judge(spec, log, exhausted, escaped, errout)
            if not res.ok:
                if n:
                    res.msg = '[second firing of the same root event objects] ' + res.msg
                return res
        if len(phases) > 1:
            res.classes = tuple(sorted(set(res.classes) | {'root-objects-fired-again'}))
        return res

    def _judge(self, spec, log, exhausted, escaped, errout):
        drv = spec['driver']

        def bad(clause, msg):
            return Result(False, clause, '%s [driver=%s]' % (msg, drv))

        if escaped:
            return bad('exception-escaped', 'exception escaped the loop: %s' % escaped)
        if exhausted:
            return bad('no-quiescence', 'loop did not become quiescent')
        stray = [l for l in log if l[0] == 'stray']
        if stray:
            return bad('stray-exception', 'unexpected exception event: %r' % (stray[:2],))

        especs = {}
        parent = {}

        def reg(e, p):
            especs[e['id']] = e
            parent[e['id']] = p['id'] if p else None

        _walk(spec['roots'], reg)

        fired = {l[1]: l[2] for l in log if l[0] == 'fired'}
        cancelled = {l[1] for l in log if l[0] == 'cancel'}
        last_activity = {}
        for k, l in enumerate(log):
            if l[0] in ('fired', 'hstart', 'hend', 'step', 'cancel'):
                last_activity[l[1]] = k

        # every fired, non-cancelled event got all the handlers it should get, and they finished
        for eid in fired:
            if eid in cancelled:
                if any(l[0] == 'hstart' and l[1] == eid for l in log):
                    return bad('cancelled-dispatched', 'event %d was cancelled before dispatch but a handler ran' % eid)
                continue
            hs = especs[eid]['handlers']
            if especs[eid].get('orphan'):
                if any(l[0] == 'hstart' and l[1] == eid for l in log):
                    return bad('orphan-handled', 'event %d has no handler but one ran' % eid)
                continue
            should = []
            for i, h in enumerate(hs):
                should.append(i)
                if h['kind'] == 'stop':
                    break
            started = [l[2] for l in log if l[0] == 'hstart' and l[1] == eid]
            ended = [l[2] for l in log if l[0] == 'hend' and l[1] == eid]
            if started != should:
                return bad('handlers-run', 'event %d: handlers started %r, expected %r' % (eid, started, should))
            if sorted(ended) != should:
                return bad('handlers-finish', 'event %d: handlers finished %r, expected %r' % (eid, sorted(ended), should))

        def closure(eid):
            out = [eid]
            for c, p in parent.items():
                if p == eid and c in fired:
                    out.extend(closure(c))
            return out

        nontrivial = False
        classes = ['driver:' + drv]
        for eid, es in sorted(especs.items()):
            if not es['complete'] or eid not in fired:
                continue
            fc = [k for k, l in enumerate(log) if l[0] == 'fire_complete' and l[1] == eid]
            dc = [k for k, l in enumerate(log) if l[0] == 'complete' and l[1] == eid]
            cl = closure(eid)
            if len(fc) > 1 or len(dc) > 1:
                return bad('complete-twice', 'event %d: complete fired %d times, dispatched %d times' % (eid, len(fc), len(dc)))
            if fc:
                late = [x for x in cl if last_activity.get(x, -1) > fc[0]]
                if late:
                    what = [(x, log[last_activity[x]][0], fired.get(x)) for x in late[:4]]
                    return bad('complete-early', 'event %d: complete fired while members of its closure were still active: %r' % (eid, what))
            if len(fc) != 1 or len(dc) != 1:
                ab = []
                for x in cl:
                    if x in cancelled:
                        ab.append((x, 'cancelled'))
                    elif any(h['kind'] == 'genraise' for h in especs[x]['handlers']):
                        ab.append((x, 'raising-generator'))
                return bad('complete-missing', 'event %d: closure %r drained but complete fired %d / dispatched %d times (abnormal members: %r)' % (
                    eid, cl, len(fc), len(dc), ab[:4]))
            if es['cchan'] and log[dc[0]][2] != (es['cchan'],):
                return bad('complete-channels', 'event %d: complete delivered on %r' % (eid, log[dc[0]][2]))
            abnormal = False
            for x in cl:
                if x in cancelled or fired.get(x) in ('step', 'call'):
                    abnormal = True
                kinds = [h['kind'] for h in especs[x]['handlers']]
                if x not in cancelled and not especs[x].get('orphan') and any(k in ('raise', 'stop', 'genraise') for k in kinds):
                    abnormal = True
            if len(cl) >= 3 and abnormal:
                nontrivial = True
        if cancelled:
            classes.append('cancelled-descendant')
        if any(v == 'step' for v in fired.values()):
            classes.append('fired-from-generator-step')
        if any(especs[e].get('orphan') for e in fired):
            classes.append('handler-less-event-in-closure')
        if any(v == 'call' for v in fired.values()):
            classes.append('called-from-generator-step')
        if any(especs[e]['complete'] and parent[e] is not None for e in fired):
            classes.append('nested-complete')
        if any(h['kind'] == 'genraise' for e in fired if e not in cancelled for h in especs[e]['handlers']):
            classes.append('raising-generator')
        if errout.strip():
            return bad('stderr', 'unexpected error output: %s' % errout[-300:])
        return Result(True, nontrivial=nontrivial, classes=sorted(set(classes)))


PROP = C05()
