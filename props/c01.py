"""C01 — events reach exactly the matching handlers, once, with the live handler set.

Spec: {"pool": [[shape, channel], ...], "ops": [[op, i, j, k], ...]}     (ints are resolved modulo the eligible set)
  ops:  reg(c,p)  unreg(c)+settle  unreg_nosettle(c)  addh(c, names, chan)  rmh(c, h)  probe(src, name, target) = fire+settle
        fire(src, name, target) (queued only)   flush(root, n ticks)   recycle(c, p, k) (compound: use c as root, make it a
        child, mutate its subtree, detach it again, use it as root)
The expected receiver set is computed from the statement's rule at the moment the root dispatches the probe
(observer override of _dispatcher on the pool classes; tree membership is read from the real `components` links).
"""
import types

from hypothesis import strategies as st

from circuits import BaseComponent, Component, Event
from circuits.core.handlers import handler as H
from vlib import driver
from vlib.runner import Prop, Result

NAMES = ['e1', 'e2']
TARGETS = ['a', 'b', 'c', '*', 'inst']
DYN_NAMES = [(), ('e1',), ('e2',), ('e1', 'e2')]
DYN_CHANS = [None, 'a', 'b', '*', 'self']
FALSY = [0, '']         # channels that are falsy values: still channels (third op argument >= 40 selects them)
SHAPES = ['plain', 'catch', 'star', 'impl', 'subno', 'subov', 'bare', 'leaf3', 'implopt']


class e1(Event):
    pass


class e2(Event):
    pass


class act(Event):
    """Carrier of a structural change that is performed by a handler while a flush pass is running."""


EV = {'e1': e1, 'e2': e2}


class World:
    """One case: pool, model of live handlers, logs."""

    def __init__(self):
        self.log = []          # (tag, comp index, hid)
        self.expect = {}       # tag -> (must, may, root index)
        self.dispatched = []   # tags in dispatch order
        self.model = {}        # comp index -> {hid: (names, chan)}
        self.pool = []
        self.ops_since = 0
        self.seen_keys = {}    # root index -> {(name, target repr): ops counter}
        self.classes = set()
        self.nontrivial = False
        self.actions = {}      # k -> closure run by the first handler that receives act(k)


def _mk_classes(w):
    """Component classes whose handlers log into the world ``w``."""

    def rec(hid):
        def f(self, event, *args):
            if isinstance(event, (e1, e2)):   # catch-all handlers also see registered/unregistered/... events
                w.log.append((args[0], self.idx, hid))
        f.__name__ = hid.replace('.', '_')
        return f

    def run_action(k):
        fn = w.actions.pop(k, None)
        if fn is not None:
            fn()

    class Obs(BaseComponent):
        def _dispatcher(self, event, channels, remaining):
            if isinstance(event, (e1, e2)):
                _expect(w, self, event, channels)
            return super()._dispatcher(event, channels, remaining)

        @H('act', channel='*')
        def _act(self, event, k):
            run_action(k)

    class Plain(Obs):
        h1 = H('e1')(rec('plain.h1'))
        h2 = H('e1', 'e2', channel='a')(rec('plain.h2'))
    Plain.decl = {'plain.h1': (('e1',), None), 'plain.h2': (('e1', 'e2'), 'a')}

    class Catch(Obs):
        hc = H()(rec('catch.hc'))
        hg = H(channel='*')(rec('catch.hg'))
    Catch.decl = {'catch.hc': ((), None), 'catch.hg': ((), '*')}

    class Star(Obs):
        hs = H('e2', channel='*')(rec('star.hs'))
        hb = H('e1', channel='b', priority=3)(rec('star.hb'))
    Star.decl = {'star.hs': (('e2',), '*'), 'star.hb': (('e1',), 'b')}

    class ObsC(Component):
        def _dispatcher(self, event, channels, remaining):
            if isinstance(event, (e1, e2)):
                _expect(w, self, event, channels)
            return super()._dispatcher(event, channels, remaining)

        @H('act', channel='*')
        def _act(self, event, k):
            run_action(k)

    class Impl(ObsC):
        def e1(self, *args):
            w.log.append((args[0], self.idx, 'impl.e1'))

        def e2(self, *args):
            w.log.append((args[0], self.idx, 'impl.e2'))
    Impl.decl = {'impl.e1': (('e1',), None), 'impl.e2': (('e2',), None)}

    class Base1(Obs):
        h = H('e1')(rec('base.h'))
        g = H('e2')(rec('base.g'))

    class SubNo(Base1):
        h = H('e1')(rec('subno.h'))          # no override: the base handler stays an additional handler
    SubNo.decl = {'base.h': (('e1',), None), 'base.g': (('e2',), None), 'subno.h': (('e1',), None)}

    class SubOv(Base1):
        h = H('e1', 'e2', override=True)(rec('subov.h'))
    SubOv.decl = {'base.g': (('e2',), None), 'subov.h': (('e1', 'e2'), None)}

    class Bare(Obs):
        pass
    Bare.decl = {}

    # three levels: the middle class REPLACES the grand-base handler (override=True), the leaf re-declares the method
    # without override, so the middle one stays an additional handler; the replaced grand-base handler must not run
    class Grand(Obs):
        h = H('e1')(rec('grand.h'))

    class Mid(Grand):
        h = H('e1', override=True)(rec('mid.h'))

    class Leaf3(Mid):
        h = H('e1')(rec('leaf3.h'))
    Leaf3.decl = {'mid.h': (('e1',), None), 'leaf3.h': (('e1',), None)}

    # Component subclass: public methods are implicit handlers unless opted out with @handler(False)
    class ImplOpt(ObsC):
        def e1(self, *args):
            w.log.append((args[0], self.idx, 'implopt.e1'))

        @H(False)
        def e2(self, *args):
            w.log.append((args[0] if args else None, self.idx, 'implopt.e2'))
    ImplOpt.decl = {'implopt.e1': (('e1',), None)}

    return {'plain': Plain, 'catch': Catch, 'star': Star, 'impl': Impl, 'subno': SubNo, 'subov': SubOv, 'bare': Bare,
            'leaf3': Leaf3, 'implopt': ImplOpt}, rec


def _members(root, pending=False, out=None):
    if out is None:
        out = []
    p = pending or bool(getattr(root, '_unregister_pending', False))
    out.append((root, p))
    for c in sorted(root.components, key=lambda c: getattr(c, 'idx', -1)):
        _members(c, p, out)
    return out


def _matches(names, chan, comp, name, target, pool=None):
    if names and name not in names:
        return False
    if not names and chan == '*':
        return True  # global handler
    if isinstance(chan, tuple):
        # ('bound', i): a handler without a channel of its own that is a bound method of pool[i], added to `comp` with
        # addHandler(): it belongs to comp (tree membership, instance addressing) and listens on the channel of the
        # component it is bound to
        hc = pool[chan[1]].channel
    else:
        hc = comp.channel if chan is None else (comp if chan == 'self' else chan)
    return target == '*' or hc == '*' or hc == target or hc is target or target is comp


def _expect(w, root, event, channels):
    target = channels[0]
    must, may = set(), set()
    for m, pending in _members(root):
        idx = getattr(m, 'idx', None)
        if idx is None:
            continue
        for hid, (names, chan) in w.model[idx].items():
            if _matches(names, chan, m, event.name, target, w.pool):
                # the log names the component a handler ran as (its `self`)
                (may if pending else must).add((chan[1] if isinstance(chan, tuple) else idx, hid))
    tag = event.args[0]
    w.expect[tag] = (must, may, getattr(root, 'idx', None))
    w.dispatched.append(tag)
    key = (event.name, target if isinstance(target, (str, int)) else ('inst', target.idx))
    seen = w.seen_keys.setdefault(root.idx, {})
    if key in seen and seen[key] < w.ops_since:
        w.nontrivial = True
        w.classes.add('warm-cache-after-structural-op')
    seen[key] = w.ops_since


class C01(Prop):
    id = 'C01'
    rule = ('histories (<=40 ops) over a pool of <=7 components of 7 class shapes (explicit named / multi-name / catch-all / '
            'global / channel-override / instance-channel handlers, implicit Component methods, handlers inherited with and '
            'without override) with instance channels from {a,b,*} (handler channel overrides and fire targets also the falsy values 0 and ''; handlers may be bound methods of another component of the pool): register, unregister (settled or left in flight), '
            'addHandler, removeHandler, fire, flush, and a compound "recycle root" op; every probe is judged at dispatch time '
            'against the matcher derived from the statement; non-trivial = a probe dispatched by a root that had already '
            'dispatched the same (name, target) and saw a structural change since; distinct = spec hash')
    assumptions = ('one target channel per fire (the quantifier); order among handlers is not asserted',
                   'components whose unregistration is in flight may or may not receive (bracketed), everything else is exact',
                   'global handlers (no names, channel *) are never removed: Manager.removeHandler cannot remove them',
                   'tree membership is read from the real parent/components links at dispatch time (their consistency is C07)')
    budget = {'quick': (2500, 4), 'thorough': (100000, 16)}
    shrink_lists = {'ops': 0}

    def setup(self):
        driver.quiet_process()

    def strategy(self, tier):
        op = st.tuples(st.sampled_from(['reg', 'reg', 'unreg', 'unreg', 'unreg_nosettle', 'addh', 'addh', 'rmh', 'probe', 'probe',
                                        'probe', 'fire', 'flush', 'recycle', 'recycle', 'detach_race', 'unreg_nosettle', 'in_batch', 'in_batch', 'warm_rm']),
                       st.integers(0, 13), st.integers(0, 13), st.one_of(st.integers(0, 39), st.integers(0, 71))).map(list)
        return st.fixed_dictionaries({
            'pool': st.lists(st.tuples(st.sampled_from(SHAPES), st.sampled_from(['a', 'b', '*'])).map(list), min_size=2, max_size=7),
            'ops': st.lists(op, min_size=1, max_size=40 if tier == 'quick' else 60),
        })

    # ------------------------------------------------------------------
    def execute(self, spec):
        w = World()
        classes, rec = _mk_classes(w)
        dyn_counter = [0]
        tagc = [0]
        err_text = ''
        escaped = None

        with driver.captured_stderr() as err:
            try:
                for i, (shape, chan) in enumerate(spec['pool']):
                    c = classes[shape](channel=chan)
                    c.idx = i
                    w.pool.append(c)
                    w.model[i] = dict(classes[shape].decl)
                n = len(w.pool)

                def root_of(c):
                    while c.parent is not c:
                        c = c.parent
                    return c

                def settle(c):
                    return driver.settle(root_of(c), 100)

                def subtree(c):
                    return [m for m, _ in _members(c)]

                def do_probe(src, name_i, tgt_i, queue_only=False):
                    tagc[0] += 1
                    name = NAMES[name_i % 2]
                    t = TARGETS[tgt_i % len(TARGETS)]
                    if tgt_i >= 40:
                        t = FALSY[tgt_i % 2]
                        w.classes.add('falsy-channel-addressed')
                    elif t == 'inst':
                        t = w.pool[(tgt_i // len(TARGETS)) % n]
                        w.classes.add('instance-addressed')
                    src.fire(EV[name](tagc[0]), t)
                    if not queue_only:
                        settle(src)

                def do_addh(c, k):
                    names = DYN_NAMES[k % len(DYN_NAMES)]
                    chan = DYN_CHANS[(k // len(DYN_NAMES)) % len(DYN_CHANS)]
                    if k >= 40:
                        chan = FALSY[(k // len(DYN_NAMES)) % 2]
                        w.classes.add('handler-on-falsy-channel')
                    dyn_counter[0] += 1
                    hid = 'dyn%d' % dyn_counter[0]
                    if k >= 56:
                        # a bound method of ANOTHER component of the pool (no channel of its own) is added to c
                        x = w.pool[(k // len(DYN_NAMES)) % n]
                        if x is not c:
                            f = types.MethodType(H(*names)(rec(hid)), x)
                            c.addHandler(f)
                            w.model[c.idx][hid] = (names, ('bound', x.idx))
                            w.ops_since += 1
                            w.classes.add('method-of-another-component-added')
                            return
                        chan = None
                    f = H(*names, channel=(c if chan == 'self' else chan))(rec(hid))
                    c.addHandler(f)
                    w.model[c.idx][hid] = (names, chan)
                    w.ops_since += 1

                def do_reg(c, j):
                    if c.parent is not c or getattr(c, '_unregister_pending', False):
                        return False
                    sub = set(id(x) for x in subtree(c))
                    cands = [p for p in w.pool if id(p) not in sub]
                    if not cands:
                        return False
                    c.register(cands[j % len(cands)])
                    w.ops_since += 1
                    return True

                def do_unreg(c, settle_after=True):
                    if c.parent is c or getattr(c, '_unregister_pending', False):
                        return False
                    r = root_of(c)
                    c.unregister()
                    w.ops_since += 1
                    if settle_after:
                        driver.settle(r, 100)
                        settle(c)
                    else:
                        w.classes.add('unregister-in-flight')
                    return True

                for op, i, j, k in spec['ops']:
                    c = w.pool[i % n]
                    if op == 'reg':
                        do_reg(c, j)
                    elif op == 'unreg':
                        do_unreg(c)
                    elif op == 'unreg_nosettle':
                        do_unreg(c, False)
                    elif op == 'addh':
                        do_addh(c, k)
                    elif op == 'rmh':
                        live = sorted(h for h, (names, chan) in w.model[c.idx].items() if not (not names and chan == '*'))
                        if live:
                            hid = live[k % len(live)]
                            names, chan = w.model[c.idx].pop(hid)
                            meth = self._find_method(c, hid)
                            if names:
                                c.removeHandler(meth)
                            else:
                                c.removeHandler(meth, '*')
                            w.ops_since += 1
                    elif op == 'warm_rm':
                        # warm the cache with an event one live handler of c matches, remove exactly that handler, fire the
                        # same event again: nothing else changes in between
                        live = sorted(h for h, (names, chan) in w.model[c.idx].items() if not (not names and chan == '*'))
                        if live:
                            hid = live[k % len(live)]
                            names, chan = w.model[c.idx][hid]
                            name = names[j % len(names)] if names else NAMES[j % 2]
                            if isinstance(chan, tuple):
                                t = w.pool[chan[1]].channel
                            else:
                                t = c.channel if chan is None else (c if chan == 'self' else chan)
                            src = root_of(c)
                            for phase in (0, 1):
                                tagc[0] += 1
                                src.fire(EV[name](tagc[0]), t)
                                settle(src)
                                if phase == 0:
                                    w.model[c.idx].pop(hid)
                                    meth = self._find_method(c, hid)
                                    c.removeHandler(meth) if names else c.removeHandler(meth, '*')
                                    w.ops_since += 1
                            w.classes.add('handler-removed-from-warm-cache')
                    elif op == 'probe':
                        do_probe(c, j, k)
                    elif op == 'fire':
                        do_probe(c, j, k, queue_only=True)
                        w.classes.add('probe-queued-across-ops')
                    elif op == 'flush':
                        r = root_of(c)
                        for _ in range(1 + k % 3):
                            r.tick()
                    elif op == 'in_batch':
                        # a handler changes the structure while a flush pass is running; a probe queued in the SAME
                        # pass behind it must already see the new handler set (warm cache: same key probed before)
                        r = root_of(c)
                        do_probe(r, k, k // 2)
                        sub = subtree(r)
                        tgt = sub[j % len(sub)]
                        kind = k % 4

                        def change(tgt=tgt, kind=kind, r=r):
                            if kind == 0:
                                do_addh(tgt, k // 4)
                            elif kind == 1:
                                live = sorted(h for h, (nm, ch) in w.model[tgt.idx].items() if nm)
                                if live:
                                    hid = live[k % len(live)]
                                    w.model[tgt.idx].pop(hid)
                                    tgt.removeHandler(self._find_method(tgt, hid))
                                    w.ops_since += 1
                            elif kind == 2:
                                others = [x for x in w.pool if x.parent is x and x is not r
                                          and not getattr(x, '_unregister_pending', False)]
                                if others:
                                    others[k % len(others)].register(tgt)
                                    w.ops_since += 1
                            else:
                                if tgt is not r:
                                    do_unreg(tgt, False)
                        tagc[0] += 0
                        w.actions[len(w.actions) + 1000 * (tagc[0] + 1)] = change
                        key = max(w.actions)
                        r.fire(act(key), '*')
                        do_probe(r, k, k // 2, queue_only=True)
                        settle(r)
                        do_probe(r, k, k // 2)
                        w.classes.add('change-inside-flush-pass')
                    elif op == 'detach_race':
                        # probe the old root while c's unregistration is in flight (fills its cache), let it complete,
                        # then probe the old root and c again with the same key
                        if c.parent is not c and not getattr(c, '_unregister_pending', False):
                            r = root_of(c)
                            do_probe(r, k, k // 2)
                            if do_unreg(c, False):
                                do_probe(r, k, k // 2)
                                settle(c)
                                do_probe(r, k, k // 2)
                                do_probe(c, k, k // 2)
                                w.classes.add('detach-race')
                    elif op == 'recycle':
                        # use c as a root, make it a child, change its subtree, detach it, use it as a root again
                        if c.parent is not c:
                            do_unreg(c)
                        if c.parent is c and not getattr(c, '_unregister_pending', False):
                            do_probe(c, k, k // 2)
                            if do_reg(c, j):
                                settle(c)
                                sub = subtree(c)
                                if k % 3 == 0:
                                    do_addh(sub[k % len(sub)], k // 3)
                                elif k % 3 == 1:
                                    live = sorted(h for h, (nm, ch) in w.model[c.idx].items() if nm)
                                    if live:
                                        hid = live[k % len(live)]
                                        w.model[c.idx].pop(hid)
                                        c.removeHandler(self._find_method(c, hid))
                                        w.ops_since += 1
                                else:
                                    others = [x for x in w.pool if x.parent is x and x is not root_of(c)
                                              and not getattr(x, '_unregister_pending', False)]
                                    if others:
                                        others[k % len(others)].register(sub[(k // 3) % len(sub)])
                                        w.ops_since += 1
                                settle(c)
                                do_probe(c, k, k // 2)        # dispatched by the big tree
                                do_unreg(c)
                                do_probe(c, k, k // 2)        # dispatched by c as its own root again
                                w.classes.add('recycled-root')
                # drain everything that is still queued
                for c in w.pool:
                    settle(c)
            except BaseException as e:  # noqa
                import traceback
                escaped = '%r\n%s' % (e, traceback.format_exc()[-600:])
            err_text = err.getvalue()

        def bad(clause, msg):
            return Result(False, clause, msg)

        if escaped:
            return bad('exception-escaped', 'exception escaped: %s' % escaped)
        if 'ERROR' in err_text:
            return bad('handler-error', 'error output: %s' % err_text[-300:])

        got = {}
        for tag, idx, hid in w.log:
            got.setdefault(tag, []).append((idx, hid))
        for tag in w.dispatched:
            must, may, ridx = w.expect[tag]
            g = got.get(tag, [])
            if len(g) != len(set(g)):
                dup = sorted(x for x in set(g) if g.count(x) > 1)
                return bad('delivered-twice', 'probe %d (root %s): handlers invoked more than once: %r' % (tag, ridx, dup[:4]))
            gs = set(g)
            if not must <= gs:
                return bad('handler-missed', 'probe %d dispatched by root %s: matching handlers not invoked: %r' % (tag, ridx, sorted(must - gs)[:4]))
            if not gs <= (must | may):
                return bad('handler-extra', 'probe %d dispatched by root %s: non-matching/stale handlers invoked: %r' % (tag, ridx, sorted(gs - must - may)[:4]))
        ghost = set(got) - set(w.dispatched)
        if ghost:
            return bad('undispatched-delivery', 'handlers ran for probes never seen by a dispatcher: %r' % sorted(ghost)[:4])
        if tagc[0] != len(set(w.dispatched)):
            return bad('probe-lost', '%d probes fired, %d dispatched' % (tagc[0], len(set(w.dispatched))))
        if len(w.dispatched) != len(set(w.dispatched)):
            return bad('probe-dispatched-twice', 'a probe was dispatched twice')
        shapes = {s for s, _ in spec['pool']}
        if shapes & {'subno', 'subov', 'leaf3'}:
            w.classes.add('inherited-handlers')
        return Result(True, nontrivial=w.nontrivial, classes=sorted(w.classes))

    @staticmethod
    def _find_method(c, hid):
        name = hid.replace('.', '_')
        for hs in c._handlers.values():
            for m in hs:
                fn = getattr(m, '__func__', m)
                if fn.__name__ == name:
                    return m
        # implicit Component methods keep their own names
        short = hid.split('.')[-1]
        for hs in c._handlers.values():
            for m in hs:
                if getattr(m, '__func__', m).__name__ == short:
                    return m
        raise LookupError(hid)


PROP = C01()
