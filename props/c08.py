"""C08 — run()/stop(): started once, everything queued is drained, stopped once, exit code propagates, re-runnable.

Spec: {"cycles": [CYCLE, ...], "idle_stops": [n, ...]}          idle_stops[k] = stop() calls on the non-running manager before cycle k
  CYCLE = {"sco": k (0 = plain `stopped` handler; k>0: it is a coroutine that call()s an event and then fires k-1 more), "tree": NODE, "stop": {"at": node index (0 = the `started` handler), "where": "handler"|"genstep"|"thread",
                                  "kind": "stop"|"stopcode"|"sysexit"|"kbd", "code": null|0|3|"msg", "after": bool}}
  NODE  = {"kids": [NODE, ...], "prio": p}
"again": 0 none; 1/4 the `stopped` handler calls stop(7)/stop(); 2 it raises SystemExit(7) (plain handler only); 3 the first node handler of the
drained tail calls stop(7) - the manager is not running any more, so none of them may change anything (exit code of the first stop stands).
Every node is an event whose handler fires its kids; node 0 is fired by nobody: its handler IS the `started` handler.
"after": the stop action runs after the kids were fired (always so for the raising kinds, whose handler ends there).
"""
import os
import threading

from hypothesis import strategies as st

from circuits import BaseComponent, Event
from circuits.core.handlers import handler as H
from vlib import driver, sched
from vlib.runner import Prop, Result


class node(Event):
    pass


class extra(Event):
    pass


def _strip(n):
    n['kids'] = [k for k in n['kids'] if not k.get('chainlink')]
    for k in n['kids']:
        _strip(k)


def _number(spec):
    for cyc in spec['cycles']:
        c = [0]
        _strip(cyc['tree'])   # idempotent: drop the chain attached by an earlier call

        def walk(n):
            n['id'] = c[0]
            c[0] += 1
            for k in n['kids']:
                walk(k)

        walk(cyc['tree'])
        stop = cyc['stop']
        stop['at'] = stop['at'] % c[0]
        # a chain of `chain` further events hangs below the node that stops (work that outlives the fade-out ticks)
        k = cyc.get('chain', 0)
        if k:
            link = [n for n in _iter_nodes(cyc['tree']) if n['id'] == stop['at']][0]
            for _ in range(k):
                nxt = {'kids': [], 'prio': 0, 'chainlink': True, 'id': c[0]}
                c[0] += 1
                link['kids'].append(nxt)
                link = nxt
        if stop['kind'] in ('stop', 'kbd'):
            stop['code'] = None
        if stop['kind'] == 'stopcode' and stop['code'] is None:
            stop['code'] = 3
        if stop['where'] == 'thread' and stop['kind'] in ('sysexit', 'kbd'):
            stop['kind'] = 'stopcode' if stop['code'] is not None else 'stop'
        if stop['kind'] in ('sysexit', 'kbd'):
            stop['after'] = True
    return spec


def _tree(depth):
    leaf = st.fixed_dictionaries({'kids': st.just([]), 'prio': st.sampled_from([0, 0, 1, -1])})
    s = leaf
    for _ in range(depth):
        s = st.fixed_dictionaries({'kids': st.lists(s, max_size=3), 'prio': st.sampled_from([0, 0, 1, -1])})
    return s


SCHED_FILES = ('circuits/core/manager.py', 'circuits/core/events.py', 'circuits/core/helpers.py', 'circuits/core/pollers.py')


class spre(Event):
    pass


def _sched_run(spec, preempt, record_owner=False):
    """{"sched": 1, "idle": fallback|Select|Poll|EPoll, "code": None|int, "pre": n, "preempt": [[step, thread]]}:
    the real run() in a loop thread and a foreign thread that calls stop(code) once `started` has been dispatched, both under
    the cooperative scheduler of vlib/sched.py (hand-over before every source line of the four core files)."""
    import circuits.core.helpers as _helpers
    import circuits.core.manager as _manager
    import circuits.core.pollers as _pollers
    log = []
    state = {'returned': False, 'exit': 'no-return'}
    s = sched.Sched(preempt, SCHED_FILES)
    if record_owner:
        s.owners = {}
        orig = s.yield_point

        def yp(where):
            name = s.me()
            if name in s.threads:
                s.owners[s.steps + 1] = name
            return orig(where)
        s.yield_point = yp
    saved = (_manager.RLock, _helpers.Event, _pollers.select)
    sel = sched.SelDouble(s)
    _manager.RLock = lambda: sched.DLock(s)
    _helpers.Event = lambda: sched.DEvent(s)
    _pollers.select = sel
    poller = None
    try:
        gate = sched.DEvent(s)

        class App(BaseComponent):
            @H('started')
            def _started(self, *a):
                log.append('started')
                for i in range(spec.get('pre', 0)):
                    self.fire(spre(i))
                gate.set()

            @H('spre')
            def _pre(self, i):
                log.append(('pre', i))

            @H('stopped')
            def _stopped(self, *a):
                log.append('stopped')

        app = App()
        if spec['idle'] != 'fallback':
            poller = getattr(_pollers, spec['idle'])().register(app)

        def loop():
            try:
                app.run()
                state['exit'] = None
            except SystemExit as e:
                state['exit'] = ('SystemExit', e.code)
            log.append('run-returned')

        def stopper():
            gate.wait()
            app.stop(spec.get('code'))
            state['returned'] = True

        with driver.captured_stderr() as err:
            s.spawn('loop', loop)
            s.spawn('stopper', stopper)
            s.run('loop')
        s.errout = err.getvalue()
        s.leftover = len(app._queue)
    finally:
        _manager.RLock, _helpers.Event, _pollers.select = saved
        if poller is not None:
            for fd in (poller._ctrl_recv, poller._ctrl_send):
                try:
                    os.close(fd)
                except (OSError, TypeError):
                    pass
        sel.close_all()
    return s, log, state


def _sched_judge(spec, s, log, state):
    def bad(clause, msg):
        return Result(False, clause, '%s | idle=%s code=%r switches=%r log=%r' % (msg, spec['idle'], spec.get('code'), s.trace[:4], log[-6:]), True, ['scheduled-foreign-stop'])
    if s.violation is not None:
        kind = s.violation[0]
        if kind == 'harness-timeout':
            return Result(True, inconclusive=True, classes=['inconclusive:wall-cap'])
        if kind == 'stuck':
            return bad('foreign-stop-stuck', 'stop() from another thread %s but run() never returns: %r' % (
                'returned' if state['returned'] else 'did not return', s.violation[1]))
        return bad(kind, str(s.violation[1]))
    for name, stt in s.threads.items():
        if stt['exc'] == 'step-budget':
            return bad('live-lock', 'thread %s exceeded the step budget (%d steps)' % (name, s.steps))
        if stt['exc'] is not None:
            return bad('exception-escaped', 'thread %s ended with %r' % (name, stt['exc']))
    if log.count('started') != 1:
        return bad('started-count', '`started` dispatched %d times' % log.count('started'))
    if log.count('stopped') != 1:
        return bad('stopped-count', '`stopped` dispatched %d times' % log.count('stopped'))
    if log.count('run-returned') != 1 or log.index('stopped') > log.index('run-returned'):
        return bad('returned-before-stopped', 'run() returned before `stopped` was dispatched')
    pre = [x[1] for x in log if isinstance(x, tuple)]
    if pre != list(range(spec.get('pre', 0))):
        return bad('not-drained', 'events fired by the started handler dispatched as %r' % (pre,))
    if s.leftover:
        return bad('not-drained', '%d events left in the queue after run() returned' % s.leftover)
    code = spec.get('code')
    want = None if code is None else ('SystemExit', code)
    if state['exit'] != want:
        return bad('exit-code', 'run() ended with %r, expected %r' % (state['exit'], want))
    if 'ERROR' in s.errout or 'Traceback' in s.errout:
        return bad('stderr', s.errout[-300:])
    return Result(True, nontrivial=bool(s.trace), classes=['scheduled-foreign-stop', 'idle:' + spec['idle']] + (['virtual-timeout-used'] if s.timeouts else []))



class C08(Prop):
    id = 'C08'
    rule = ('programs: `started` handler fires a tree of events (fan-out<=3, depth<=3); one stop action per cycle placed in the '
            '`started` handler, in any node handler, in a later generator step of a handler, or issued by a second real thread; '
            'kind stop() / stop(code) / raise SystemExit(code) / raise KeyboardInterrupt; code from {None,0,3,"msg"}; before or '
            'after the handler fired its children; 1-3 run/stop cycles on the same manager with 0-2 stop() calls while not '
            'running in between; optionally a second stop(code)/SystemExit(code) from the `stopped` handler or the drained tail (must have no effect), a coroutine `stopped` handler, a chain outliving the fade-out; real run() with a non-blocking idle stub; plus enumerated: every single pre-emption of a loop thread running run() and a second thread calling stop(code) under the cooperative scheduler (fallback/Select idle, thorough also Poll/EPoll); non-trivial = >=2 events were still queued or unfired '
            'descendants of the current batch when the stop executed; distinct = spec hash')
    assumptions = ('the second thread calls stop() while the loop thread waits for it inside a handler (deterministic hand-over); '
                   'beyond that, every single pre-emption of a scheduled loop thread / foreign stop(code) pair is enumerated (vlib/sched.py); deeper interleavings of foreign fire() are C03',
                   'real signals are not delivered; KeyboardInterrupt/SystemExit are raised from handlers',
                   'only one generator handler exists per cycle (the one carrying the stop), so no task outlives the stop')
    budget = {'quick': (2500, 4), 'thorough': (100000, 16)}
    shrink_lists = {'cycles': 1, 'kids': 0, 'idle_stops': 0}

    enum_procs = 16

    def setup(self):
        driver.quiet_process()

    def normalize(self, spec):
        return spec if 'sched' in spec else _number(spec)

    def enumerate(self, tier):
        """stop() from a second thread at EVERY point of the loop thread's progress and with the loop thread cutting in at
        every line of stop(): all single-preemption schedules of each scenario (thorough: more scenarios)."""
        self.setup()
        scen = [{'idle': 'fallback', 'code': None, 'pre': 0}, {'idle': 'fallback', 'code': 3, 'pre': 2}, {'idle': 'Select', 'code': None, 'pre': 1}]
        if tier == 'thorough':
            scen += [{'idle': 'Poll', 'code': 3, 'pre': 0}, {'idle': 'EPoll', 'code': None, 'pre': 2}, {'idle': 'Select', 'code': 0, 'pre': 3}]
        out = []
        for sc in scen:
            base = dict(sc, sched=1)
            s0, _, _ = _sched_run(base, {}, record_owner=True)
            out.append(dict(base, preempt=[]))
            for a in range(1, s0.steps + 1):
                for tgt in ('loop', 'stopper'):
                    if tgt != s0.owners.get(a):
                        out.append(dict(base, preempt=[[a, tgt]]))
        if tier == 'thorough':
            # all two-pre-emption schedules of one scenario: the stopper cuts in at a, the loop takes over again at b
            base = dict(scen[1], sched=1)
            s0, _, _ = _sched_run(base, {}, record_owner=True)
            for a in range(1, s0.steps + 1):
                if s0.owners.get(a) != 'loop':
                    continue
                for b in range(a + 1, a + 90):
                    out.append(dict(base, preempt=[[a, 'stopper'], [b, 'loop']]))
        return out

    def strategy(self, tier):
        stop = st.fixed_dictionaries({
            'at': st.integers(0, 30),
            'where': st.sampled_from(['handler', 'handler', 'genstep', 'thread']),
            'kind': st.sampled_from(['stop', 'stopcode', 'sysexit', 'kbd']),
            'code': st.sampled_from([None, 0, 3, 'msg']),
            'after': st.booleans(),
        })
        cyc = st.fixed_dictionaries({'tree': _tree(2 if tier == 'quick' else 3), 'stop': stop,
                                     'chain': st.sampled_from([0, 0, 0, 2, 5, 9]),
                                     'sco': st.sampled_from([0, 0, 0, 1, 2, 4]),
                                     'again': st.sampled_from([0, 0, 0, 1, 2, 3, 4])})
        return st.fixed_dictionaries({
            'cycles': st.lists(cyc, min_size=1, max_size=3),
            'idle_stops': st.lists(st.integers(0, 2), min_size=3, max_size=3),
        }).map(_number)

    # ------------------------------------------------------------------
    def execute(self, spec):
        if 'sched' in spec:
            sc, log, state = _sched_run(spec, {int(a): t for a, t in spec['preempt']})
            return _sched_judge(spec, sc, log, state)
        log = []          # ('disp', name/id) , ('fired', id)
        cur = {}

        class App(BaseComponent):
            @H('started', priority=5)
            def _started(self, event, *a):
                log.append(('disp', 'started'))
                return run_node(self, event, cur['tree'])

            @H('node')
            def _node(self, event, n):
                log.append(('disp', n['id']))
                return run_node(self, event, n)

            @H('stopped', priority=5)
            def _stopped(self, event, *a):
                log.append(('disp', 'stopped'))
                k = cur.get('sco', 0)
                again = cur.get('again', 0)
                if again == 1:
                    self.stop(7)          # the manager has stopped already: no effect, the first exit code stands
                elif again == 4:
                    self.stop()
                elif again == 2 and not k:
                    raise SystemExit(7)
                if k:
                    # the `stopped` handler is a coroutine: it call()s one event and then fires a chain of k-1 more
                    return stopped_co(self, k)

            @H('extra')
            def _extra(self, event, i, left):
                log.append(('disp', 'x%d' % i))
                if left > 0:
                    log.append(('fired', 'x%d' % (i + 1)))
                    self.fire(extra(i + 1, left - 1))

            @H('exception', channel='*')
            def _x(self, etype, evalue, tb, handler=None, fevent=None):
                log.append(('exc', repr(evalue)))

        def stopped_co(comp, k):
            log.append(('fired', 'x0'))
            yield comp.call(extra(0, 0))
            if k > 1:
                log.append(('fired', 'x1'))
                comp.fire(extra(1, k - 2))

        def fire_kids(comp, n):
            for k in n['kids']:
                log.append(('fired', k['id']))
                comp.fire(node(k), priority=k['prio'])

        def stop_action(comp, stop):
            log.append(('stop-action', len([1 for l in log if l[0] == 'fired']), len([1 for l in log if l[0] == 'disp' and l[1] not in ('started', 'stopped')])))
            kind, code = stop['kind'], stop['code']
            if stop['where'] == 'thread':
                box = []

                def other():
                    try:
                        comp.stop(code) if kind == 'stopcode' else comp.stop()
                    except BaseException as e:  # noqa
                        box.append(e)
                t = threading.Thread(target=other)
                t.start()
                t.join(30)
                if t.is_alive():
                    log.append(('thread-stuck',))
                return
            if kind == 'stop':
                comp.stop()
            elif kind == 'stopcode':
                comp.stop(code)
            elif kind == 'sysexit':
                raise SystemExit(code) if code is not None else SystemExit()
            else:
                raise KeyboardInterrupt()

        def run_node(comp, event, n):
            stop = cur['stop']
            here = stop['at'] == n['id']
            if cur.get('again') == 3 and not here and not cur.get('again_done') and any(l[0] == 'stop-action' for l in log):
                # part of the drained tail: a second stop(code) while the manager is no longer running
                cur['again_done'] = True
                comp.stop(7)
            if here and stop['where'] == 'genstep':
                def g():
                    yield None
                    if not stop['after']:
                        stop_action(comp, stop)
                    fire_kids(comp, n)
                    if stop['after']:
                        stop_action(comp, stop)
                return g()
            if here and not stop['after']:
                stop_action(comp, stop)
            fire_kids(comp, n)
            if here and stop['after']:
                stop_action(comp, stop)
            return None

        app = App()
        idle = driver.Idle(max_iter=300, extra=lambda: False).register(app)
        driver.settle(app, 10)
        nontrivial = False
        classes = set()

        def bad(clause, msg):
            return Result(False, clause, msg)

        for ci, cyc in enumerate(spec['cycles']):
            # stop() on a manager that is not running must have no effect
            for _ in range(spec['idle_stops'][ci % len(spec['idle_stops'])]):
                classes.add('stop-while-not-running')
                del log[:]
                try:
                    app.stop()
                except BaseException as e:  # noqa
                    return bad('idle-stop-raised', 'stop() on a non-running manager raised %r (cycle %d)' % (e, ci))
                if len(app._queue) or app.running or log:
                    return bad('idle-stop-effect', 'stop() on a non-running manager had an effect: queued %d events, dispatched %r (cycle %d)' % (len(app._queue), log[:3], ci))
            del log[:]
            cur.clear()
            cur.update(cyc)
            outcome = None
            with driver.captured_stderr() as err:
                try:
                    idle.iterations = 0
                    idle.exhausted = False
                    idle.stopping = False
                    driver.NBEvent.blocked = 0
                    r = app.run()
                    outcome = ('returned', r)
                except SystemExit as e:
                    outcome = ('SystemExit', e.code)
                except BaseException as e:  # noqa
                    outcome = ('raised', repr(e))
            stop = cyc['stop']
            where = 'cycle %d stop=%s' % (ci, {k: stop[k] for k in ('at', 'where', 'kind', 'code', 'after')})
            if idle.exhausted and not any(l[0] == 'stop-action' for l in log):
                return bad('harness-stop-not-reached', 'the stop action was never reached: ' + where)
            if idle.exhausted:
                return bad('run-did-not-return', 'run() kept going after the stop action until the harness bound: ' + where)
            if driver.NBEvent.blocked:
                return bad('idle-blocked', 'loop went into an untimed idle wait: ' + where)
            if any(l[0] == 'thread-stuck' for l in log):
                return bad('stop-thread-stuck', 'stop() from a second thread did not return: ' + where)
            exc = [l for l in log if l[0] == 'exc']
            if exc:
                return bad('exception-event', 'unexpected exception event %r: %s' % (exc[0][1], where))
            if outcome[0] == 'raised':
                return bad('run-raised', 'run() raised %s: %s' % (outcome[1], where))
            disp = [l[1] for l in log if l[0] == 'disp']
            if disp.count('started') != 1 or disp[0] != 'started':
                return bad('started-count', 'started dispatched %d times (first dispatched: %r): %s' % (disp.count('started'), disp[:1], where))
            if disp.count('stopped') != 1:
                return bad('stopped-count', 'stopped dispatched %d times: %s' % (disp.count('stopped'), where))
            fired = [l[1] for l in log if l[0] == 'fired']
            dn = [d for d in disp if d not in ('started', 'stopped')]
            if sorted(map(str, dn)) != sorted(map(str, fired)):
                lost = sorted(set(map(str, fired)) - set(map(str, dn)))
                return bad('event-dropped', 'fired %d events, dispatched %d before run() returned; lost %r: %s' % (len(fired), len(dn), lost[:6], where))
            # reference evaluation: every handler fires its children unconditionally, so the whole program (tree, chain and
            # the events of a coroutine `stopped` handler) is a consequence of `started`/stop and must have been dispatched
            want = sorted([str(n['id']) for n in _iter_nodes(cyc['tree']) if n['id'] != 0] + ['x%d' % i for i in range(cyc.get('sco', 0))])
            if sorted(map(str, dn)) != want:
                missing = sorted(set(want) - set(map(str, dn)))
                return bad('program-not-completed', 'events of the program never fired/dispatched before run() returned: %r (a handler was '
                           'cut off or never resumed): %s' % (missing[:6], where))
            if len(app._queue):
                return bad('queue-not-drained', '%d events left in the queue after run() returned: %s' % (len(app._queue), where))
            if app.running:
                return bad('still-running', 'manager still running after run() returned: ' + where)
            want_code = stop['code'] if stop['kind'] in ('stopcode', 'sysexit') else None
            if want_code is not None:
                if outcome != ('SystemExit', want_code):
                    return bad('exit-code-lost', 'exit code %r given, run() %s %r: %s' % (want_code, outcome[0], outcome[1], where))
            elif outcome[0] != 'returned':
                return bad('exit-code-spurious', 'no exit code given, run() raised SystemExit(%r): %s' % (outcome[1], where))
            if err.getvalue().strip():
                return bad('stderr', 'error output: %s' % err.getvalue()[-200:])
            # non-trivial: what was pending when the stop executed
            sa = [l for l in log if l[0] == 'stop-action'][0]
            total = sum(1 for _ in _iter_nodes(cyc['tree'])) - 1
            if total - sa[2] >= 2 or cyc.get('sco', 0) >= 2:
                nontrivial = True
            classes.add('where:' + stop['where'])
            if cyc.get('chain', 0) > 4:
                classes.add('chain-longer-than-fade-out')
            classes.add('kind:' + stop['kind'])
            if ci > 0:
                classes.add('re-run')
            if cyc.get('sco'):
                classes.add('stopped-handler-is-a-coroutine')
            if cyc.get('again') in (1, 2, 4) or cur.get('again_done'):
                classes.add('second-stop-after-stopping:%d' % cyc['again'])
        return Result(True, nontrivial=nontrivial, classes=sorted(classes))


def _iter_nodes(n):
    yield n
    for k in n['kids']:
        yield from _iter_nodes(k)


PROP = C08()
