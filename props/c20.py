"""C20 — authentication, session binding and gateway trust are sound.

Three spec kinds (one interpreter each, one shared ``execute``):

  {"kind": "auth", "users": [[name, pw], ...], "form": "dict"|"call0"|"call1", "realm": str, "method": str,
   "challenge": "basic"|"digest", "encrypt": "str"|"md5"|"salt"|"none", "idiom": "check"|"tool",
   "hdr": {...description of the Authorization value, rendered by ``render_header``...}}
  {"kind": "session", "reqs": [{"ip": i, "agent": a, "cookie": [variant, k], "quoted": bool}, ...]}
  {"kind": "vhost", "gw": None | {"type": "list"|"tuple"|"set", "ips": [...]}, "ip": str, "host": str,
   "xfh": None|str, "path": str}

Oracle for "auth" is ``reference_verdict``: an RFC 2617 verifier written here from the RFC text (own tokenizer,
own base64/credential handling, hashlib only) which reads nothing but the *rendered header string*, the user
table, the realm, the method and the request uri.  It answers

  accept   the header is a canonical answer to the challenge that was configured and it verifies -> MUST be granted
  refuse   under no reading (lenient parsing, case-insensitive hex, first/last duplicate, ...) does the
           header prove knowledge of a table entry for the realm                               -> MUST be refused
  either   proof of knowledge exists but the header is off the beaten track (other scheme than
           the challenge, MD5-sess, auth-int, unknown algorithm/qop, uri differs from the
           request line, lenient base64, upper-case hex ...)                                  -> not asserted
"""
import base64
import binascii
import hashlib
import itertools
import json
import re
from http.cookies import SimpleCookie

from hypothesis import strategies as st

from circuits import BaseComponent, handler
from circuits.web import Controller, Sessions
from circuits.web import tools
from circuits.web.dispatchers.virtualhosts import VirtualHosts
from circuits.web.headers import Headers
from circuits.web.wrappers import Request, Response
from vlib import driver
from vlib.httprig import FakeServer, FakeSock, Rig, decode_responses
from vlib.runner import Prop, Result

SECRET = '-'.join(['TOP', 'SECRET', '7f3a91'])          # never appears literally in any source line
SECRET_B = SECRET.encode()


def md5hex(s):
    if isinstance(s, str):
        s = s.encode('utf-8')
    return hashlib.md5(s).hexdigest()


# =====================================================================================================
#  Independent RFC 2617 reference verifier
# =====================================================================================================
_TCHAR = set("!#$%&'*+-.^_`|~0123456789abcdefghijklmnopqrstuvwxyzABCDEFGHIJKLMNOPQRSTUVWXYZ")
_B64 = set('ABCDEFGHIJKLMNOPQRSTUVWXYZabcdefghijklmnopqrstuvwxyz0123456789+/')


def split_scheme(header):
    """-> (scheme_lower, rest, canonical) or None.  canonical: token, exactly one SP, something after it."""
    i = 0
    n = len(header)
    while i < n and header[i] in _TCHAR:
        i += 1
    if i == 0:
        return None
    scheme = header[:i].lower()
    j = i
    while j < n and header[j] in ' \t':
        j += 1
    if j == i:                      # no separator at all ("Basic", "BasicQWxh...")
        return (scheme, '', False) if i == n else None
    return scheme, header[j:], header[i:j] == ' '


def parse_auth_params(s):
    """Tokenise ``#auth-param``.  -> (list of (key, value), strict) ; strict False on any deviation from
    ``token "=" ( token | quoted-string )`` separated by ``OWS "," OWS``."""
    items = []
    strict = True
    i = 0
    n = len(s)

    def skip_to_comma(i):
        q = False
        while i < n:
            c = s[i]
            if q:
                if c == '\\':
                    i += 1
                elif c == '"':
                    q = False
            elif c == '"':
                q = True
            elif c == ',':
                return i
            i += 1
        return i

    while True:
        while i < n and s[i] in ' \t':
            i += 1
        if i >= n:
            break
        if s[i] == ',':
            i += 1
            continue
        j = i
        while j < n and s[j] in _TCHAR:
            j += 1
        key = s[i:j]
        k = j
        while k < n and s[k] in ' \t':
            k += 1
        if not key or k >= n or s[k] != '=':
            strict = False
            i = skip_to_comma(i)
            continue
        if k != j:
            strict = False
        k += 1
        k0 = k
        while k < n and s[k] in ' \t':
            k += 1
        if k != k0:
            strict = False
        if k < n and s[k] == '"':
            k += 1
            val = []
            closed = False
            while k < n:
                c = s[k]
                if c == '\\' and k + 1 < n:
                    val.append(s[k + 1])
                    k += 2
                    continue
                if c == '"':
                    closed = True
                    k += 1
                    break
                val.append(c)
                k += 1
            if not closed:
                strict = False
            value = ''.join(val)
        else:
            k1 = k
            while k < n and s[k] not in ', \t':
                k += 1
            value = s[k1:k]
            if not value or any(c not in _TCHAR for c in value):
                strict = False
        items.append((key, value))
        while k < n and s[k] in ' \t':
            k += 1
        if k < n and s[k] != ',':
            strict = False
            k = skip_to_comma(k)
        i = k
    return items, strict


def digest_expected(p, password, method, body=b''):
    """request-digest of RFC 2617 3.2.2.1-3.2.2.3 for the given parameter map, or None if it cannot be formed."""
    try:
        user, realm, nonce, uri = p['username'], p['realm'], p['nonce'], p['uri']
    except KeyError:
        return None
    alg = p.get('algorithm')
    qop = p.get('qop')
    if alg is not None and alg.lower() == 'md5-sess':
        if 'cnonce' not in p:
            return None
        a1 = md5hex('%s:%s:%s' % (user, realm, password)) + ':' + nonce + ':' + p['cnonce']
    else:
        a1 = '%s:%s:%s' % (user, realm, password)
    if qop is not None and qop.lower() == 'auth-int':
        a2 = '%s:%s:%s' % (method, uri, md5hex(body))
    else:
        a2 = '%s:%s' % (method, uri)
    if qop is None:
        return md5hex('%s:%s:%s' % (md5hex(a1), nonce, md5hex(a2)))
    if 'nc' not in p or 'cnonce' not in p:
        return None
    return md5hex('%s:%s:%s:%s:%s:%s' % (md5hex(a1), nonce, p['nc'], p['cnonce'], qop, md5hex(a2)))


def _digest_verdict(rest, sep_ok, cfg):
    items, strict = parse_auth_params(rest)
    table, realm, method, uri = cfg['table'], cfg['realm'], cfg['method'], cfg['uri']
    readings = []
    first, last = {}, {}
    for k, v in items:
        first.setdefault(k, v)
        last[k] = v
    readings.append(last)
    if first != last:
        readings.append(first)
    lf, ll = {}, {}
    for k, v in items:
        lf.setdefault(k.lower(), v)
        ll[k.lower()] = v
    for r in (ll, lf):
        if r not in readings:
            readings.append(r)
    proof = None
    for p in readings:
        u = p.get('username')
        if u is None or u not in table or p.get('realm') != realm or 'response' not in p:
            continue
        exp = digest_expected(p, table[u], method)
        # without a qop the RFC 2069 formula is the only one; a client that sends nc/cnonce anyway still proves knowledge
        if exp is not None and exp.lower() == p['response'].lower():
            proof = (u, p)
            break
    if proof is None:
        return 'refuse', None, 'digest-no-proof'
    u, p = proof
    keys = [k for k, _ in items]
    canonical = (
        strict and sep_ok and p is readings[0] and len(set(keys)) == len(keys)
        and p.get('algorithm', 'MD5') == 'MD5'
        and p.get('qop', 'auth') == 'auth'
        and (('qop' in p) == ('nc' in p) == ('cnonce' in p))
        and ('nc' not in p or re.fullmatch(r'[0-9a-f]{8}', p['nc']) is not None)
        and p['response'] == digest_expected(p, table[u], method)
        and p['uri'] == uri
        and cfg['challenge'] == 'digest'
        and (cfg.get('issued_nonce') is None or p['nonce'] == cfg['issued_nonce'])
    )
    if canonical:
        return 'accept', u, 'digest-good'
    return 'either', u, 'digest-offbeat'


def _b64_readings(tok):
    """strict decoding first; then lenient ones (junk removed, padding repaired)."""
    out = []
    strict = None
    if tok and len(tok) % 4 == 0 and re.fullmatch(r'[A-Za-z0-9+/]*={0,2}', tok):
        try:
            strict = base64.b64decode(tok, validate=True)
        except (binascii.Error, ValueError):
            strict = None
    if strict is not None:
        out.append((strict, True))
    core = ''.join(c for c in tok if c in _B64)
    for cut in (0, 1):
        c = core[:len(core) - cut] if cut else core
        if len(c) % 4 == 1:
            continue
        try:
            raw = base64.b64decode(c + '=' * (-len(c) % 4))
        except (binascii.Error, ValueError):
            continue
        if all(raw != r for r, _ in out):
            out.append((raw, False))
    return out


def _basic_verdict(rest, sep_ok, cfg):
    table = cfg['table']
    proof = None
    canonical = False
    for raw, strict in _b64_readings(rest):
        for enc in ('utf-8', 'latin-1'):
            try:
                txt = raw.decode(enc)
            except UnicodeDecodeError:
                continue
            if ':' not in txt:
                continue
            u, pw = txt.split(':', 1)
            if u in table and cfg['stored'](pw, u) == table[u]:
                if proof is None:
                    proof = u
                    canonical = strict and enc == 'utf-8' and sep_ok and cfg['challenge'] == 'basic'
    if proof is None:
        return 'refuse', None, 'basic-no-proof'
    if canonical:
        return 'accept', proof, 'basic-good'
    return 'either', proof, 'basic-offbeat'


def reference_verdict(header, cfg):
    """-> (verdict, user, label).  cfg: table {user: stored entry}, realm, method, uri, challenge,
    stored(pw, user) -> what the table holds for that password under the configured ``encrypt``,
    digest_ok: whether table entries are usable as Digest passwords (plaintext table)."""
    if header is None:
        return 'refuse', None, 'no-header'
    sp = split_scheme(header)
    if sp is None:
        return 'refuse', None, 'no-scheme'
    scheme, rest, sep_ok = sp
    if scheme == 'basic':
        return _basic_verdict(rest, sep_ok, cfg)
    if scheme == 'digest':
        v, u, lab = _digest_verdict(rest, sep_ok, cfg)
        if v == 'accept' and not cfg['digest_ok']:
            return 'either', u, 'digest-against-hashed-table'
        return v, u, lab
    return 'refuse', None, 'other-scheme'


# =====================================================================================================
#  Header rendering (generator side; the oracle never looks at the description)
# =====================================================================================================
GHOSTS = ['ghost', 'None', 'nobody', 'root']
PASSWORDS = ['secret', '', 'None', 'pässwörd✓', 'p:w:x', 'a b', 'hunter2', 'x"y', 'café']
USERNAMES = ['admin', 'bob', 'Alice Smith', 'a,b', 'u=1', 'None', 'x.y-z']
REALMS = ['Test', 'my realm', 'r', 'Realm, with comma', 'a=b', '']      # '' : a configured realm that is falsy
METHODS = ['GET', 'GET', 'POST', 'PUT', 'DELETE', 'HEAD']
OTHER_HEADERS = ['Bearer abc', 'Negotiate YWJj', 'Basic', 'Digest', 'Digest ,', 'Digest username', '', 'Basic  ',
                 'NTLM', 'Digest =', 'Digest username=', 'Digest ="x"', 'basic:YWRtaW46c2VjcmV0', '"Basic" YWRtaW46c2VjcmV0',
                 'Digest realm', 'Token token="secret"', 'Digest "', 'Digest username="admin']


def _pick_user(sel, users):
    if sel < 4:
        return users[sel % len(users)][0]
    return GHOSTS[(sel - 4) % len(GHOSTS)]


def _pick_pw(sel, user, users):
    tab = dict((u, p) for u, p in users)
    if sel == 'right':
        return tab[user] if user in tab else 'None'   # the guessable derived password of an absent user
    if sel == 'None':
        return 'None'
    if sel == 'empty':
        return ''
    if sel == 'user':
        return user
    if sel == 'other':
        for u, p in users:
            if u != user:
                return p
        return 'other'
    return tab.get(user, 'x') + '~wrong'


FIXED_NONCE = 'dcd98b7102dd2f0e8b11d0f600bfb0c093'


def render_header(h, spec, uri, issued_nonce=None):
    kind = h['kind']
    users = spec['users']
    if kind == 'none':
        return None
    if kind == 'other':
        return OTHER_HEADERS[h['n'] % len(OTHER_HEADERS)].strip()
    user = _pick_user(h['user'], users)
    pw = _pick_pw(h['pw'], user, users)
    if kind == 'basic':
        cred = (user + ':' + pw) if h['colon'] else (user + pw)
        try:
            raw = cred.encode(h['enc'])
        except UnicodeEncodeError:
            raw = cred.encode('utf-8')
        tok = base64.b64encode(raw).decode('ascii')
        m = h['b64']
        if m == 'nopad':
            tok = tok.rstrip('=')
        elif m == 'junk':
            tok = tok[:3] + '!!' + tok[3:]
        elif m == 'garbage':
            tok = '!!!!'
        elif m == 'empty':
            tok = ''
        elif m == 'trunc':
            tok = tok[:-3]
        elif m == 'space':
            tok = tok[:4] + ' ' + tok[4:]
        return (h['scheme'] + h['sep'] + tok).strip()
    # ---- digest
    realm_cfg = spec['realm']
    realm_hdr = {'cfg': realm_cfg, 'other': realm_cfg + 'x', 'upper': realm_cfg.swapcase(), 'empty': ''}[h['realm']]
    realm_calc = realm_cfg if h['realm_calc'] == 'cfg' else realm_hdr
    method = spec['method'] if h['method_calc'] == 'req' else ('POST' if spec['method'] != 'POST' else 'GET')
    uri_hdr = uri if h['uri'] == 'req' else h['uri']
    uri_calc = uri_hdr if h['uri_calc'] == 'hdr' else uri_hdr + 'z'
    nonce = (issued_nonce or FIXED_NONCE) if h['nonce'] == 'server' else h['nonce']
    nonce_calc = nonce if h['nonce_calc'] == 'hdr' else nonce + '0'
    qop = h['qop']
    alg = h['alg']
    nc = h['nc']
    cnonce = 'c0ffee'
    p = {'username': user, 'realm': realm_calc, 'nonce': nonce_calc, 'uri': uri_calc}
    if qop is not None:
        p.update(qop=qop, nc=nc, cnonce=cnonce)
    if alg is not None and alg.lower() == 'md5-sess':
        p['algorithm'] = alg
        p.setdefault('cnonce', cnonce)
    resp = digest_expected(p, pw, method) or md5hex('x')
    rm = h['resp']
    if rm == 'empty':
        resp = ''
    elif rm == 'prefix':
        resp = resp[:16]
    elif rm == 'suffix':
        resp = resp + '00'
    elif rm == 'upper':
        resp = resp.upper()
    elif rm == 'flip':
        resp = resp[:-1] + ('0' if resp[-1] != '0' else '1')
    fields = [('username', user), ('realm', realm_hdr), ('nonce', nonce), ('uri', uri_hdr), ('response', resp)]
    if alg is not None:
        fields.append(('algorithm', alg))
    if qop is not None:
        fields += [('qop', qop), ('nc', nc), ('cnonce', cnonce)]
    elif h['stray'] == 'nc':
        fields += [('nc', nc), ('cnonce', cnonce)]
    if alg is not None and alg.lower() == 'md5-sess' and qop is None and h['stray'] != 'nc':
        fields.append(('cnonce', cnonce))
    fields = [f for f in fields if f[0] not in h['drop']]
    for x in h['extra']:
        if x == 'opaque':
            fields.append(('opaque', '5ccc069c403ebaf9f0171e9517f40e41'))
        elif x == 'unknown':
            fields.append(('foo', 'bar, baz=1'))
        elif x == 'dup-user-ghost':
            fields.append(('username', 'ghost'))
        elif x == 'dup-user-first':
            fields.insert(0, ('username', 'ghost'))
        elif x == 'dup-response':
            fields.append(('response', md5hex('nope')))
    r = h['order'] % len(fields) if fields else 0
    fields = fields[r:] + fields[:r]
    unq = ('nc', 'qop', 'algorithm') if h['style'] == 'rfc' else ()
    if h['style'] == 'upperkeys':
        fields = [(k.capitalize(), v) for k, v in fields]
    parts = []
    for k, v in fields:
        if k in unq and v and all(c in _TCHAR for c in v):
            parts.append('%s=%s' % (k, v))
        else:
            parts.append('%s="%s"' % (k, v.replace('\\', '\\\\').replace('"', '\\"')))
    return (h['scheme'] + h['sep'] + h['join'].join(parts)).strip()


def _w(good, others, k):
    """sampled_from with the good value k times as likely as each other value."""
    return st.sampled_from([good] * k + list(others))


def header_strategy():
    digest = st.fixed_dictionaries({
        'kind': st.just('digest'),
        'scheme': _w('Digest', ['digest', 'DIGEST', 'dIGEST', 'Digests', 'X-Digest'], 10),
        'sep': _w(' ', ['  ', '', '\t'], 12),
        'join': _w(', ', [',', ' , ', ',  '], 4),
        'user': st.integers(0, 7),
        'pw': _w('right', ['None', 'empty', 'wrong', 'user', 'other'], 6),
        'realm': _w('cfg', ['other', 'upper', 'empty'], 10),
        'realm_calc': _w('hdr', ['cfg'], 6),
        'method_calc': _w('req', ['other'], 10),
        'uri': _w('req', ['/other', '*', ''], 10),
        'uri_calc': _w('hdr', ['other'], 12),
        'nonce': _w('server', [FIXED_NONCE, 'n', ''], 5),
        'nonce_calc': _w('hdr', ['other'], 12),
        'qop': st.sampled_from([None] * 4 + ['auth'] * 4 + ['auth-int', 'foo', 'AUTH', '']),
        'nc': _w('00000001', ['0000000a', '1', ''], 6),
        'alg': st.sampled_from([None] * 5 + ['MD5'] * 3 + ['MD5-sess', 'SHA1', 'md5', 'SHA-256', 'foo']),
        'stray': _w('no', ['nc'], 12),
        'drop': st.sampled_from([[]] * 12 + [['username'], ['realm'], ['nonce'], ['uri'], ['response'], ['cnonce'], ['nc'],
                                             ['nc', 'cnonce'], ['qop'], ['username', 'response'], ['realm', 'nonce', 'uri']]),
        'extra': st.sampled_from([[]] * 10 + [['opaque'], ['unknown'], ['opaque', 'unknown'], ['dup-user-ghost'],
                                              ['dup-user-first'], ['dup-response']]),
        'resp': _w('none', ['empty', 'prefix', 'suffix', 'upper', 'flip'], 10),
        'order': st.integers(0, 9),
        'style': st.sampled_from(['quoted', 'quoted', 'rfc', 'rfc', 'rfc', 'upperkeys']),
    })
    basic = st.fixed_dictionaries({
        'kind': st.just('basic'),
        'scheme': _w('Basic', ['basic', 'BASIC', 'Basics', 'X-Basic'], 8),
        'sep': _w(' ', ['  ', '', '\t'], 10),
        'user': st.integers(0, 7),
        'pw': _w('right', ['None', 'empty', 'wrong', 'user', 'other'], 4),
        'colon': _w(True, [False], 8),
        'enc': _w('utf-8', ['latin-1'], 6),
        'b64': _w('none', ['nopad', 'junk', 'garbage', 'empty', 'trunc', 'space'], 8),
    })
    other = st.fixed_dictionaries({'kind': st.just('other'), 'n': st.integers(0, len(OTHER_HEADERS) - 1)})
    none = st.just({'kind': 'none'})
    kinds = {'d': digest, 'b': basic, 'o': other, 'n': none}
    # (one_of() would drop the repeated alternatives; the selector keeps the weights)
    return st.sampled_from('dddddddddddbbbbbbboon').flatmap(lambda k: kinds[k])


def auth_strategy():
    users = st.lists(st.tuples(st.sampled_from(USERNAMES), st.sampled_from(PASSWORDS)).map(list),
                     min_size=1, max_size=3, unique_by=lambda t: t[0])
    return st.fixed_dictionaries({
        'kind': st.just('auth'),
        'users': users,
        'form': st.sampled_from(['dict', 'dict', 'call0', 'call1']),
        'realm': st.sampled_from(REALMS),
        'method': st.sampled_from(METHODS),
        'challenge': st.sampled_from(['match', 'match', 'match', 'basic', 'digest']),
        'encrypt': st.sampled_from(['str', 'str', 'md5', 'salt', 'none']),
        'idiom': st.sampled_from(['check', 'tool']),
        'hdr': header_strategy(),
    }).map(_resolve_challenge)


def _resolve_challenge(spec):
    """'match': the controller challenges with the scheme the header answers (the ordinary case); otherwise cross-scheme."""
    if spec['challenge'] == 'match':
        k = spec['hdr']['kind']
        spec = dict(spec, challenge=k if k in ('basic', 'digest') else 'digest')
    return spec


# =====================================================================================================
#  Sessions
# =====================================================================================================
IPS = ['10.0.0.1', '10.0.0.11', '10.0.0.2', '127.0.0.1']
_LONG_AGENT = 'Mozilla/5.0 (X11; Linux x86_64) AppleWebKit/537.36 (KHTML, like Gecko) ' + 'Chrome/120.0.0.0 Safari/537.36 ' * 4
# the last entries are realistic long agents that agree in their first 128/200 characters and differ only afterwards, and one that
# differs only in case (a fingerprint that truncates or normalises the agent would confuse them; trailing blanks are not
# generated: header values are whitespace-trimmed on the wire, so that would be the same agent)
AGENTS = [None, '', 'x', '1x', 'Mozilla/5.0 (X11; Linux x86_64)', 'curl/8.5.0',
          _LONG_AGENT[:200] + ' Edg/120.0.1', _LONG_AGENT[:200] + ' Edg/120.0.2', _LONG_AGENT[:130] + 'A', _LONG_AGENT[:130] + 'B',
          'Curl/8.5.0']
COOKIE_VARIANTS = ['same', 'same', 'same', 'none', 'uuid-altered', 'fp-altered', 'noslash', 'fp-own', 'garbage', 'empty',
                   'other-name', 'fp-only', 'fp-prefix0', 'fp-prefix4', 'fp-prefix16', 'fp-longer', 'fp-case']


def session_strategy():
    req = st.fixed_dictionaries({
        'ip': st.integers(0, len(IPS) - 1),
        'agent': st.integers(0, len(AGENTS) - 1),
        'cookie': st.tuples(st.sampled_from(COOKIE_VARIANTS), st.integers(0, 3)).map(list),
        'quoted': st.booleans(),
    })
    return st.fixed_dictionaries({'kind': st.just('session'), 'reqs': st.lists(req, min_size=2, max_size=5)})


# =====================================================================================================
#  VirtualHosts
# =====================================================================================================
VH_DOMAINS = {'evil.example': 'evil', 'site2.example': 'site2', 'site2.example:8000': 'site2'}
VH_GW = [None,
         {'type': 'list', 'ips': []}, {'type': 'tuple', 'ips': []},
         {'type': 'list', 'ips': ['10.0.0.1']}, {'type': 'set', 'ips': ['10.0.0.1']},
         {'type': 'tuple', 'ips': ['10.0.0.1', '10.0.0.2']}, {'type': 'list', 'ips': ['127.0.0.1']}]
VH_IPS = ['10.0.0.1', '10.0.0.2', '10.0.0.11', '127.0.0.1', '192.168.7.7']
VH_HOSTS = ['plain.example', 'site2.example', 'evil.example', 'site2.example:8000', None]     # None: HTTP/1.0 request without Host
VH_XFH = [None, 'evil.example', 'site2.example', 'unknown.example', 'evil.example, site2.example',
          ' evil.example ,plain.example', 'EVIL.example', '', ', evil.example', 'plain.example, evil.example']
VH_PATHS = ['/', '/page']


def vhost_specs():
    for gw, ip, host, xfh, path in itertools.product(VH_GW, VH_IPS, VH_HOSTS, VH_XFH, VH_PATHS):
        yield {'kind': 'vhost', 'gw': gw, 'ip': ip, 'host': host, 'xfh': xfh, 'path': path}


# =====================================================================================================
#  The property
# =====================================================================================================
def _stored_fn(name):
    if name == 'str':
        return lambda pw, u: pw
    if name == 'salt':
        return lambda pw, u: md5hex(u + '\x00' + pw)
    return lambda pw, u: md5hex(pw)            # 'md5' (explicit callable) and 'none' (documented default: md5)


def _encrypt_arg(name):
    if name == 'str':
        return str
    if name == 'md5':
        return lambda pw: hashlib.md5(pw.encode('utf-8')).hexdigest()
    if name == 'salt':
        return lambda pw, user: hashlib.md5((user + '\x00' + pw).encode('utf-8')).hexdigest()
    return None


class _PathProbe(BaseComponent):
    channel = 'web'

    def init(self):
        self.paths = []

    @handler('request', priority=0.5)       # after VirtualHosts (1.0), before the Dispatcher (0.1)
    def _p(self, event, req, res, *a):
        self.paths.append(req.path)


class C20(Prop):
    id = 'C20'
    rule = ('auth: user table (1-3 users, 3 table forms) x realm x method x challenge (basic_auth/digest_auth, 4 encrypt '
            'settings) x Authorization value rendered from a deviation grammar (Basic: user/password choice, no colon, '
            'charset, base64 damage, scheme case/separator; Digest: user/password choice incl. absent user with password '
            '"None", realm/method/uri/nonce used in the hash vs sent, qop none/auth/auth-int/unknown, algorithm variants, '
            'dropped/duplicated/extra fields, response damage, order, quoting; other schemes; no header), applied to direct '
            'calls of check_auth and basic_auth/digest_auth and to a controller using the documented idiom in the HTTP rig, '
            'judged by an independent RFC 2617 verifier reading the header text; session: 2-5 requests differing in cookie '
            '(17 variants built from earlier issued sids), address and user agent; vhost: full product gateways x remote ip x '
            'Host (incl. absent, HTTP/1.0) x X-Forwarded-Host x path (enumerated). non-trivial = (auth) header that parses as a Basic/Digest credential '
            'naming a user and must be refused, (session) an issued sid presented from a different fingerprint, (vhost) named '
            'gateways and a forwarded host, mapping elsewhere than Host, from an untrusted address; distinct = spec hash')
    assumptions = ('Digest nonce freshness/replay and equality of the uri directive with the request line are not asserted',
                   'a header that proves knowledge of the password but is not a canonical answer to the configured challenge '
                   '(other scheme, MD5-sess, auth-int, unknown algorithm/qop, lenient base64, upper-case hex, duplicate or '
                   'capitalised directives) may be accepted or refused',
                   'VirtualHosts(trusted_gateways=None) (constructor default) is generated and counted but not asserted',
                   'a client-invented, never issued sid that carries the presenting client\'s own fingerprint is kept by '
                   'circuits (it holds no data); only "no foreign data" is asserted for it',
                   'which 4xx/5xx or exception refuses a request is not asserted')
    budget = {'quick': (2000, 4), 'thorough': (60000, 16)}
    enum_procs = 4          # the vhost product is 2800 cheap cases

    def setup(self):
        driver.quiet_process()

    # ------------------------------------------------------------------ generation
    def strategy(self, tier):
        kinds = {'a': auth_strategy(), 's': session_strategy()}
        # the vhost product is enumerated completely in both tiers; the generated share is auth 70 % / session 30 %
        return st.sampled_from('aaaaaaasss').flatmap(lambda k: kinds[k])

    def enumerate(self, tier):
        return list(vhost_specs())

    # ------------------------------------------------------------------ dispatch
    def execute(self, spec):
        with driver.captured_stderr():
            k = spec['kind']
            if k == 'auth':
                return self._auth(spec)
            if k == 'session':
                return self._session(spec)
            return self._vhost(spec)

    # ------------------------------------------------------------------ auth
    def _auth(self, spec):
        users = [(u, p) for u, p in spec['users']]
        challenge = spec['challenge']
        enc_name = spec['encrypt'] if challenge == 'basic' else 'none'
        stored = _stored_fn(enc_name) if challenge == 'basic' else _stored_fn('none')
        # digest_auth takes no encrypt: plaintext table; basic_auth: table holds encrypt(password)
        if challenge == 'digest':
            table = dict(users)
        else:
            table = dict((u, stored(p, u)) for u, p in users)
        realm, method, uri = spec['realm'], spec['method'], '/'
        cfg = {'table': table, 'realm': realm, 'method': method, 'uri': uri, 'challenge': challenge, 'stored': stored,
               'digest_ok': challenge == 'digest' or enc_name == 'str', 'issued_nonce': None}
        encrypt = _encrypt_arg(enc_name)

        def users_arg():
            if spec['form'] == 'dict':
                return dict(table)
            if spec['form'] == 'call0':
                return lambda: dict(table)
            return lambda username: table.get(username)

        def call_check(req, res):
            if challenge == 'basic':
                return tools.check_auth(req, res, realm, users_arg(), encrypt)
            return tools.check_auth(req, res, realm, users_arg())

        def call_tool(req, res):
            if challenge == 'basic':
                return tools.basic_auth(req, res, realm, users_arg(), encrypt)
            return tools.digest_auth(req, res, realm, users_arg())

        def judge(issued):
            """Render the header the way a client answering this very challenge would, and ask the reference."""
            header = render_header(spec['hdr'], spec, uri, issued)
            c = dict(cfg, issued_nonce=issued)
            return (header,) + reference_verdict(header, c)

        obs = []       # (where, header, verdict, who, label, granted, login, note)

        # ---- direct calls
        srv = FakeServer()

        def direct(which, header):
            sock = FakeSock(0)
            try:
                hl = [('Host', 'a')]
                if header is not None:
                    hl.append(('Authorization', header))
                req = Request(sock, method, 'http', uri, (1, 1), '', headers=Headers(hl), server=srv)
                res = Response(req)
                try:
                    if which == 'check':
                        granted = bool(call_check(req, res))
                    else:
                        granted = call_tool(req, res) is None
                    note = ''
                except Exception as e:  # an exception refuses
                    granted = False
                    note = type(e).__name__
                return granted, req.login, note, res.headers.get('WWW-Authenticate')
            finally:
                sock.close()

        for which in ('check', 'tool'):
            issued = _challenge_nonce(direct('tool', None)[3])
            header, verdict, who, label = judge(issued)
            granted, login, note, _ = direct(which, header)
            obs.append(('direct-' + which, header, verdict, who, label, granted, login, note))

        # ---- the documented idiom inside a controller behind the real HTTP stack
        seen = []
        idiom = spec['idiom']

        class Root(Controller):
            def index(self, *a, **k):
                req, res = self.request, self.response
                seen.append(req)
                if idiom == 'check':
                    if call_check(req, res):
                        return SECRET
                    return call_tool(req, res)
                r = call_tool(req, res)
                if r is not None:
                    return r
                return SECRET

        rig = Rig(controllers=[Root()])
        try:
            def send(n, header):
                s = rig.sock(n)
                lines = ['%s %s HTTP/1.1' % (method, uri), 'Host: a', 'Connection: close']
                if header is not None:
                    lines.append('Authorization: ' + header)
                if method in ('POST', 'PUT'):
                    lines.append('Content-Length: 0')
                rig.feed(s, ('\r\n'.join(lines) + '\r\n\r\n').encode('latin-1'))
                raw = rig.output(s)
                dec, _ = decode_responses(raw, [method])
                r0 = dec[0] if dec else None
                return raw, (r0 if isinstance(r0, dict) else None)

            _, ch = send(1, None)
            issued = _challenge_nonce(dict(ch['headers']).get('www-authenticate') if ch else None)
            header, verdict, who, label = judge(issued)
            del seen[:]
            raw, r0 = send(2, header)
            status = r0['status'] if r0 else None
            body = r0['body'] if r0 else None
            if method == 'HEAD':
                granted = status == 200
            else:
                granted = SECRET_B in raw
            login = seen[0].login if seen else None
            obs.append(('rig-' + idiom, header, verdict, who, label, granted, login, 'status=%r reached=%d' % (status, len(seen))))
            rig_ok_shape = (status == 200 and (method == 'HEAD' or body == SECRET_B))
        finally:
            rig.cleanup()

        hk = spec['hdr']['kind']
        classes = ['auth', 'auth:' + verdict, 'auth:%s:%s' % (challenge, label), 'auth-form:' + spec['form']]
        if challenge == 'basic':
            classes.append('auth-encrypt:' + enc_name)
        syntactic = who is not None or _names_user(header)
        nontrivial = verdict == 'refuse' and hk in ('basic', 'digest') and syntactic
        if nontrivial:
            classes.append('auth:credential-must-be-refused')

        for where, header, verdict, who, label, granted, login, note in obs:
            ctx = 'header=%r realm=%r method=%s challenge=%s encrypt=%s form=%s table=%r reference=%s/%s' % (
                header, realm, method, challenge, enc_name, spec['form'], table, verdict, label)
            if verdict == 'refuse':
                if granted:
                    return Result(False, 'granted-without-credentials:' + _bucket(header, table),
                                  '%s granted access (%s) but the header does not verify: %s' % (where, note, ctx),
                                  nontrivial, classes)
                if login not in (None, False):
                    return Result(False, 'login-set-on-refusal', '%s: request.login=%r on a refused request: %s' % (where, login, ctx),
                                  nontrivial, classes)
            elif verdict == 'accept':
                if not granted:
                    return Result(False, 'valid-credentials-refused:' + challenge,
                                  '%s refused valid credentials (%s): %s' % (where, note, ctx), nontrivial, classes)
                if login != who:
                    return Result(False, 'login-wrong', '%s: request.login=%r, expected %r: %s' % (where, login, who, ctx),
                                  nontrivial, classes)
                if where.startswith('rig') and not rig_ok_shape:
                    return Result(False, 'valid-credentials-refused:' + challenge, 'rig: no 200 with the protected body: %s' % ctx,
                                  nontrivial, classes)
            else:
                if granted and login != who:
                    return Result(False, 'login-wrong', '%s: granted with request.login=%r, the credentials are those of %r: %s' % (
                        where, login, who, ctx), nontrivial, classes)
        if rig.stuck:
            return Result(False, 'no-quiescence', 'rig did not settle: %s' % ctx, nontrivial, classes)
        return Result(True, nontrivial=nontrivial, classes=classes)

    # ------------------------------------------------------------------ sessions
    def _session(self, spec):
        class Root(Controller):
            def index(self, t=None, **k):
                old = self.session.get('v')
                sid = self.session.sid
                with self.session as data:
                    data['v'] = t
                return json.dumps({'old': old, 'sid': sid})

        rig = Rig(controllers=[Root()], extra=[Sessions()])
        issued = []            # sids in order of issue (one per response)
        owner = {}             # sid -> fingerprint it was first issued to
        data = {}              # sid -> last token stored
        classes = ['session']
        state = {'nontrivial': False, 'n': 0}

        def bad(clause, msg):
            return Result(False, clause, msg, state['nontrivial'], classes)

        def request(ip, agent, name, cookie, quoted, variant):
            """One request, judged against the model.  -> Result on violation, else None."""
            state['n'] += 1
            n = state['n']
            fp = (ip, agent or '')
            tok = 'tok%d' % n
            lines = ['GET /?t=%s HTTP/1.1' % tok, 'Host: a', 'Connection: close']
            if agent is not None:
                lines.append('User-Agent: ' + agent)
            if cookie is not None:
                lines.append('Cookie: %s=%s' % (name, ('"%s"' % cookie) if quoted else cookie))
            s = rig.sock(n, peer=ip)
            rig.feed(s, ('\r\n'.join(lines) + '\r\n\r\n').encode('latin-1'))
            dec, _ = decode_responses(rig.output(s), ['GET'])
            r0 = dec[0] if dec else None
            ctx = 'request #%d of %r: ip=%s agent=%r cookie %s=%r (%s)' % (n, spec['reqs'], ip, agent, name, cookie, variant)
            if not isinstance(r0, dict) or r0['status'] != 200:
                return bad('session-request-failed', 'no 200 response: %r; %s' % (r0 if not isinstance(r0, dict) else r0['status'], ctx))
            try:
                payload = json.loads(r0['body'].decode())
            except ValueError:
                return bad('session-request-failed', 'undecodable body %r; %s' % (r0['body'][:80], ctx))
            jar = SimpleCookie()
            for hk, hv in r0['headers']:
                if hk == 'set-cookie':
                    jar.load(hv)
            if 'circuits' not in jar:
                return bad('session-no-cookie', 'response carries no session cookie; %s' % ctx)
            sid = jar['circuits'].value
            presented = cookie if name == 'circuits' else None
            legit = presented is not None and presented in owner and owner[presented] == fp
            if presented is not None and presented in owner and owner[presented] != fp:
                state['nontrivial'] = True
                classes.append('session:issued-sid-from-other-fingerprint')
            classes.append('session-cookie:' + variant)
            if legit:
                if payload['old'] != data.get(presented) or sid != presented or payload['sid'] != presented:
                    return bad('session-lost', 'owner presenting its sid got old=%r sid=%r, expected %r under %r; %s' % (
                        payload['old'], sid, data.get(presented), presented, ctx))
            else:
                if payload['old'] is not None:
                    return bad('session-leak', 'data %r (stored under %r) returned to a request that does not own that sid; %s' % (
                        payload['old'], [k2 for k2, v in data.items() if v == payload['old']], ctx))
                if sid in issued:
                    return bad('sid-not-fresh', 'sid %r handed out again to a request that does not own it; %s' % (sid, ctx))
                if payload['sid'] != sid:
                    return bad('sid-not-fresh', 'session object sid %r differs from cookie %r; %s' % (payload['sid'], sid, ctx))
                if sid == presented:
                    classes.append('session:client-chosen-sid-kept')
            issued.append(sid)
            owner.setdefault(sid, fp)
            data[sid] = tok
            return None

        try:
            for r in spec['reqs']:
                ip = IPS[r['ip'] % len(IPS)]
                agent = AGENTS[r['agent'] % len(AGENTS)]
                variant, k = r['cookie']
                base = issued[k % len(issued)] if issued else None
                if base is None and variant not in ('none', 'garbage', 'empty'):
                    variant = 'none'
                name = 'circuits'
                if variant == 'none':
                    cookie = None
                elif variant == 'same':
                    cookie = base
                elif variant == 'uuid-altered':
                    u, f = base.split('/', 1) if '/' in base else (base, '')
                    cookie = ('0' if u[:1] != '0' else '1') + u[1:] + '/' + f
                elif variant == 'fp-altered':
                    u, f = base.split('/', 1) if '/' in base else (base, '')
                    cookie = u + '/' + ('0' if f[:1] != '0' else '1') + f[1:]
                elif variant == 'noslash':
                    cookie = base.split('/', 1)[0]
                elif variant == 'fp-own':
                    # an attacker who knows the victim's random part first asks the server for a session of his own
                    # and grafts the fingerprint part he was given onto the victim's random part
                    res = request(ip, agent, name, None, False, 'fp-own-probe')
                    if res is not None:
                        return res
                    mine = issued[-1]
                    cookie = base.split('/', 1)[0] + '/' + (mine.split('/', 1)[1] if '/' in mine else '')
                elif variant == 'fp-only':
                    cookie = '/' + (base.split('/', 1)[1] if '/' in base else '')
                elif variant.startswith('fp-prefix'):
                    # an issued sid whose fingerprint part is abbreviated: never issued in this form, and whatever the
                    # server makes of it, it must not become an id that two different clients share
                    u, f = base.split('/', 1) if '/' in base else (base, '')
                    cookie = u + '/' + f[:int(variant[9:])]
                elif variant == 'fp-longer':
                    cookie = base + '0'
                elif variant == 'fp-case':
                    u, f = base.split('/', 1) if '/' in base else (base, '')
                    cookie = u + '/' + f.upper()
                elif variant == 'garbage':
                    cookie = 'zz/zz'
                elif variant == 'empty':
                    cookie = ''
                else:  # other-name
                    cookie, name = base, 'circuitz'
                res = request(ip, agent, name, cookie, r['quoted'], variant)
                if res is not None:
                    return res
            if rig.stuck:
                return bad('no-quiescence', 'rig did not settle')
        finally:
            rig.cleanup()
        return Result(True, nontrivial=state['nontrivial'], classes=classes)

    # ------------------------------------------------------------------ virtual hosts
    def _vhost(self, spec):
        gw = spec['gw']
        if gw is None:
            gateways = None
        else:
            gateways = {'list': list, 'tuple': tuple, 'set': set}[gw['type']](gw['ips'])

        def mk(channel, tag):
            class C(Controller):
                def index(self, *a, **k):
                    return tag + ':' + '/'.join(a)
            C.channel = channel
            return C()

        probe = _PathProbe()
        rig = Rig(controllers=[mk('/', 'root'), mk('/evil', 'evil'), mk('/site2', 'site2')],
                  extra=[VirtualHosts(dict(VH_DOMAINS), trusted_gateways=gateways), probe])
        xfh = spec['xfh']
        first = xfh.split(',')[0].strip() if xfh is not None else ''
        try:
            def go(n, host, fwd):
                if host is None:
                    lines = ['GET %s HTTP/1.0' % spec['path']]
                else:
                    lines = ['GET %s HTTP/1.1' % spec['path'], 'Host: ' + host, 'Connection: close']
                if fwd is not None:
                    lines.append('X-Forwarded-Host: ' + fwd)
                s = rig.sock(n, peer=spec['ip'])
                before = len(probe.paths)
                rig.feed(s, ('\r\n'.join(lines) + '\r\n\r\n').encode('latin-1'))
                dec, _ = decode_responses(rig.output(s), ['GET'])
                r0 = dec[0] if dec else None
                return (probe.paths[before:], (r0['status'], r0['body']) if isinstance(r0, dict) else r0)

            actual = go(1, spec['host'], xfh)
            by_host = go(2, spec['host'], None)
            classes = ['vhost', 'vhost-gw:' + ('default-None' if gw is None else ('empty' if not gw['ips'] else 'named'))]
            nontrivial = False
            ctx = 'gateways=%r remote=%s Host=%r X-Forwarded-Host=%r path=%s: routed %r' % (
                gateways, spec['ip'], spec['host'], xfh, spec['path'], actual)
            if gw is None:
                classes.append('vhost:not-asserted')
                return Result(True, nontrivial=False, classes=classes)
            trusted = spec['ip'] in gw['ips']
            elsewhere = bool(first) and VH_DOMAINS.get(first.lower(), '') != VH_DOMAINS.get(spec['host'] or '', '')
            if not spec['host']:
                classes.append('vhost:no-host-header' if spec['host'] is None else 'vhost:empty-host-header')
            if not trusted:
                classes.append('vhost:untrusted')
                if xfh is not None and elsewhere:
                    nontrivial = True
                    classes.append('vhost:untrusted-forwarded-elsewhere')
                if actual != by_host:
                    return Result(False, 'forwarded-host-honoured-from-untrusted',
                                  '%s, without the header %r' % (ctx, by_host), nontrivial, classes)
            else:
                classes.append('vhost:trusted')
                if first and first == first.lower():
                    by_fwd = go(3, first, None)
                    if actual != by_fwd:
                        return Result(False, 'forwarded-host-ignored-from-trusted',
                                      '%s, a request with Host: %s is routed %r' % (ctx, first, by_fwd), nontrivial, classes)
                elif not (xfh or '').strip():
                    if actual != by_host:
                        return Result(False, 'forwarded-host-ignored-from-trusted',
                                      '%s, empty forwarded host must fall back to Host: %r' % (ctx, by_host), nontrivial, classes)
            if rig.stuck:
                return Result(False, 'no-quiescence', 'rig did not settle', nontrivial, classes)
            return Result(True, nontrivial=nontrivial, classes=classes)
        finally:
            rig.cleanup()


def _challenge_nonce(www_authenticate):
    """nonce of a Digest challenge (None for Basic / none): a client answers with the nonce it was given."""
    if not www_authenticate:
        return None
    sp = split_scheme(www_authenticate)
    if sp is None or sp[0] != 'digest':
        return None
    for k, v in parse_auth_params(sp[1])[0]:
        if k.lower() == 'nonce':
            return v or None
    return None


def _names_user(header):
    """Does the header parse, leniently, as a Basic/Digest credential that names some user?"""
    if not header:
        return False
    sp = split_scheme(header)
    if sp is None:
        return False
    scheme, rest, _ = sp
    if scheme == 'digest':
        items, _ = parse_auth_params(rest)
        return any(k.lower() == 'username' for k, _ in items)
    if scheme == 'basic':
        return any(b':' in raw for raw, _ in _b64_readings(rest))
    return False


def _bucket(header, table):
    """Stable root-cause bucket for 'granted although the reference refuses'."""
    sp = split_scheme(header or '')
    if sp is None:
        return 'unparsable'
    scheme, rest, _ = sp
    if scheme == 'digest':
        p = dict((k.lower(), v) for k, v in parse_auth_params(rest)[0])
        if any(k not in p for k in ('username', 'realm', 'nonce', 'uri', 'response')) or \
                ('qop' in p) != ('nc' in p and 'cnonce' in p) or ('qop' not in p and ('nc' in p or 'cnonce' in p)):
            return 'digest-incomplete'
        return 'digest' if p['username'] in table else 'digest-unknown-user'
    if scheme == 'basic':
        for raw, _ in _b64_readings(rest):
            if b':' in raw and raw.split(b':', 1)[0].decode('utf-8', 'replace') in table:
                return 'basic'
        return 'basic-unknown-user'
    return 'other-scheme'


PROP = C20()
