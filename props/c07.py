"""C07 — the component tree stays a consistent forest under register/unregister.

Spec: {"n": pool size, "chans": [...], "ops": [[op, i, j], ...]}
  ops: reg(c, p)   (c fully detached, no unregistration pending; p outside c's subtree)
       fire_inst(c, t)  probe fired on c and addressed to the component instance t (wherever t is)
       unreg(c)    (c attached; nothing is ticked: several may be issued before any tick, nested subtrees included)
       fire(c)     (probe to '*', on attached and detached components alike)
       tick(c, k)  (k ticks of the current root of c)
  at the end every root is settled.
"""
from hypothesis import strategies as st

from circuits import BaseComponent, Event
from circuits.core.handlers import handler as H
from vlib import driver
from vlib.runner import Prop, Result


class probe(Event):
    pass


class C07(Prop):
    id = 'C07'
    rule = ('histories (<=45 ops) over a pool of 3-6 components: register, unregister (never ticked in between unless a tick op '
            'says so: nested and repeated unregistrations before any tick), probes fired on attached and detached components, '
            'k ticks of any current root; structural invariants after every op, announcement/probe accounting at the end; '
            'non-trivial = history with a nested unregistration (a component unregistered while an ancestor or descendant has '
            'one pending) or a re-registration elsewhere, and >=1 probe that crossed a register (queued on a detached component, '
            'delivered by its new root); distinct = spec hash')
    assumptions = ('a nested unregistration need not complete (the statement speaks of completed ones only); counted as a class',
                   'components whose unregistration is in flight may or may not receive a probe (bracketed)')
    budget = {'quick': (3000, 4), 'thorough': (120000, 16)}
    shrink_lists = {'ops': 0}

    def setup(self):
        driver.quiet_process()

    def strategy(self, tier):
        idx = st.integers(0, 11)
        op = st.tuples(st.sampled_from(['reg', 'reg', 'reg', 'unreg', 'unreg', 'unreg_nested', 'fire', 'fire_detached', 'fire_detached', 'tick', 'tick', 'tick', 'tick', 'unreg_again', 'fire_then_reg', 'fire_then_reg', 'fire_inst', 'fire_inst']),
                       idx, idx).map(lambda t: [list(t)])
        # macro shapes (expanded here; the spec holds primitive ops only): a component leaves, its unregistration completes,
        # and it (or its former subtree) is registered elsewhere / several unregistrations nested in one another before any tick
        cycle = st.tuples(idx, idx, idx, idx, idx, idx).map(lambda t: [
            ['reg', t[0], t[1]], ['reg', t[2], t[3]], ['tick', t[0], 2], ['unreg', t[4], 0], ['fire_detached', t[5], 0],
            ['tick', t[1], 2], ['tick', t[3], 2], ['tick', t[5], 2], ['fire_then_reg', t[5], t[2]], ['fire_inst', t[3], t[4]], ['tick', t[0], 1]])
        nest = st.tuples(idx, idx, idx, idx, st.integers(0, 3)).map(lambda t: [
            ['reg', 0, t[0]], ['reg', 0, t[1]], ['reg', 0, t[2]], ['unreg', t[3], 0], ['unreg_nested', t[0], 0]] +
            ([['tick', t[1], 0]] if t[4] == 1 else []) + [['unreg_nested', t[2], 0]] + ([['unreg_again', t[1], 0]] if t[4] == 2 else []) +
            [['fire', t[3], 0], ['fire_inst', t[0], t[1]], ['tick', t[2], 2], ['tick', t[3], 2]])
        again = st.tuples(idx, idx, idx, st.integers(0, 2), st.integers(0, 2)).map(lambda t: [
            ['reg', t[0], t[1]], ['unreg', t[2], 0]] + ([['tick', t[2], t[3]]] if t[4] else []) + [['unreg_again', t[2], 0], ['tick', t[1], t[3]],
            ['fire_then_reg', t[2], t[0]], ['tick', t[0], 2]])
        seg = st.integers(0, 9).flatmap(lambda k: (op, op, op, op, op, op, cycle, nest, again, op)[k])      # one_of() would merge the repeated alternatives
        m = 45 if tier == 'quick' else 70
        return st.fixed_dictionaries({
            'n': st.integers(3, 6),
            'chans': st.lists(st.sampled_from(['a', 'b', '*']), min_size=6, max_size=6),
            'ops': st.lists(seg, min_size=1, max_size=m).map(lambda segs: [o for sg in segs for o in sg][:m + 25]),
        })

    def execute(self, spec):
        seen_reg = []      # (observer idx, id(event), c idx, p idx)
        seen_unreg = []    # (observer idx, id(event), c idx)
        recv = []          # (tag, receiver idx)
        disp = []          # (tag, root idx, must, may)
        keep = []          # keep event objects alive so ids stay unique

        class Node(BaseComponent):
            def _dispatcher(self, event, channels, remaining):
                if isinstance(event, probe):
                    must, may = set(), set()
                    for m, pending in members(self):
                        (may if pending else must).add(m.idx)
                    disp.append((event.args[0], self.idx, must, may))
                return super()._dispatcher(event, channels, remaining)

            @H('probe', channel='*')
            def _p(self, event, tag):
                recv.append((tag, self.idx))

            @H('registered', channel='*')
            def _r(self, event, c, m):
                keep.append(event)
                seen_reg.append((self.idx, id(event), c.idx, m.idx))

            @H('unregistered', channel='*')
            def _u(self, event, c, *a):
                keep.append(event)
                seen_unreg.append((self.idx, id(event), c.idx))

        def members(root, pending=False, out=None):
            if out is None:
                out = []
            p = pending or bool(getattr(root, '_unregister_pending', False))
            out.append((root, p))
            for c in sorted(root.components, key=lambda c: c.idx):
                members(c, p, out)
            return out

        n = spec['n']
        pool = []
        for i in range(n):
            c = Node(channel=spec['chans'][i])
            c.idx = i
            pool.append(c)

        def top(c):
            seen = set()
            while c.parent is not c:
                if id(c) in seen:
                    return None
                seen.add(id(c))
                c = c.parent
            return c

        def invariants():
            for x in pool:
                for ch in x.components:
                    if ch.parent is not x:
                        return 'child %d of %d has parent %s' % (ch.idx, x.idx, getattr(ch.parent, 'idx', '?'))
                if x.parent is not x and x not in x.parent.components:
                    return '%d has parent %d but is not among its components' % (x.idx, x.parent.idx)
                t = top(x)
                if t is None:
                    return 'cycle through %d' % x.idx
                if x.root is not t:
                    return '%d.root is %s but the top of its chain is %d' % (x.idx, getattr(x.root, 'idx', '?'), t.idx)
            return None

        reg_ops = []        # (c, p) completed registrations (register() is synchronous)
        unreg_started = {}  # c idx -> number of unregistrations started
        unreg_completed = {}
        attached_pending = set()
        tagc = [0]
        again = [0]
        inst_outside = [0]
        crossed_from = {}   # tag -> idx of the detached root it was queued on before the register
        crossed = set()     # tags queued on a detached component that was registered later
        queued_on = {}      # tag -> idx of the detached root it was queued on
        nested = False
        rereg = False
        ever_reg = set()
        escaped = None
        problem = None

        def note_completions():
            for i in list(attached_pending):
                c = pool[i]
                if c.parent is c and not getattr(c, '_unregister_pending', False):
                    attached_pending.discard(i)
                    unreg_completed[i] = unreg_completed.get(i, 0) + 1

        with driver.captured_stderr() as err:
            try:
                for op, i, j in spec['ops']:
                    c = pool[i % n]
                    if op in ('reg', 'fire_detached', 'fire_then_reg'):
                        el = [x for x in pool if x.parent is x and not getattr(x, '_unregister_pending', False)]
                        if not el:
                            continue
                        c = el[i % len(el)]
                    elif op in ('unreg', 'unreg_nested'):
                        el = [x for x in pool if x.parent is not x and not getattr(x, '_unregister_pending', False)]
                        if op == 'unreg_nested':
                            def near_pending(x):
                                a = x.parent
                                while True:
                                    if getattr(a, '_unregister_pending', False):
                                        return True
                                    if a.parent is a:
                                        break
                                    a = a.parent
                                return any(getattr(m, '_unregister_pending', False) for m, _ in members(x)[1:])
                            el2 = [x for x in el if near_pending(x)]
                            el = el2 or el
                        if not el:
                            continue
                        c = el[i % len(el)]
                    if op == 'unreg_again':
                        # unregister() on a component that is already leaving must have no effect
                        el = [x for x in pool if getattr(x, '_unregister_pending', False)]
                        if el:
                            el[i % len(el)].unregister()
                            again[0] += 1
                        continue
                    if op == 'fire_detached':
                        op = 'fire'
                    if op == 'fire_then_reg':
                        tagc[0] += 1
                        queued_on[tagc[0]] = c.idx
                        c.fire(probe(tagc[0]), '*')
                        op = 'reg'
                    if op == 'unreg_nested':
                        op = 'unreg'
                    if op == 'reg':
                        if c.parent is c and not getattr(c, '_unregister_pending', False):
                            sub = {id(m) for m, _ in members(c)}
                            cands = [p for p in pool if id(p) not in sub]
                            if cands:
                                p = cands[j % len(cands)]
                                for t, r in list(queued_on.items()):
                                    if r == c.idx:
                                        crossed.add(t)
                                        crossed_from[t] = (c.idx, len(reg_ops))
                                        del queued_on[t]
                                c.register(p)
                                reg_ops.append((c.idx, p.idx))
                                if c.idx in ever_reg:
                                    rereg = True
                                ever_reg.add(c.idx)
                    elif op == 'unreg':
                        if c.parent is not c and not getattr(c, '_unregister_pending', False):
                            # nested: an ancestor or a descendant already has an unregistration pending
                            anc = c.parent
                            while True:
                                if getattr(anc, '_unregister_pending', False):
                                    nested = True
                                if anc.parent is anc:
                                    break
                                anc = anc.parent
                            if any(getattr(m, '_unregister_pending', False) for m, p in members(c)[1:]):
                                nested = True
                            c.unregister()
                            unreg_started[c.idx] = unreg_started.get(c.idx, 0) + 1
                            attached_pending.add(c.idx)
                    elif op == 'fire_inst':
                        # a probe addressed to a component INSTANCE (not a channel name), which may sit in another tree
                        # or have left this one: only the tree of the firing component may receive it
                        tagc[0] += 1
                        tgt = pool[j % n]
                        if tgt.root is not c.root:
                            inst_outside[0] += 1
                        c.fire(probe(tagc[0]), tgt)
                    elif op == 'fire':
                        tagc[0] += 1
                        r = top(c)
                        if r is not None and c.root is r and r.parent is r:
                            # remember probes queued on a root that may later be registered somewhere
                            queued_on[tagc[0]] = r.idx
                        c.fire(probe(tagc[0]), '*')
                    elif op == 'tick':
                        r = top(c)
                        if r is not None:
                            for _ in range(1 + j % 3):
                                r.tick()
                            for t, ri in list(queued_on.items()):
                                if ri == r.idx:
                                    del queued_on[t]
                    note_completions()
                    problem = invariants()
                    if problem:
                        break
                if not problem:
                    for _ in range(3):
                        for c in pool:
                            t = top(c)
                            if t is not None:
                                driver.settle(t, 200)
                        note_completions()
                    problem = invariants()
            except BaseException as e:  # noqa
                import traceback
                escaped = '%r %s' % (e, traceback.format_exc()[-500:])
            errout = err.getvalue()

        def bad(clause, msg):
            return Result(False, clause, msg)

        if escaped:
            return bad('exception-escaped', escaped)
        if problem:
            return bad('forest-invariant', problem)
        if 'ERROR' in errout:
            return bad('handler-error', errout[-300:])

        # ---- announcements
        by_event = {}
        for obs, eid, ci, pi in seen_reg:
            by_event.setdefault(eid, []).append(obs)
        for eid, obs in by_event.items():
            if len(obs) != len(set(obs)):
                return bad('registered-seen-twice', 'an observer received the same registered event twice')
        events_for = {}
        for obs, eid, ci, pi in seen_reg:
            events_for.setdefault((ci, pi), set()).add(eid)
        from collections import Counter
        want = Counter(reg_ops)
        for key, cnt in want.items():
            got = len(events_for.get(key, ()))
            if got != cnt:
                return bad('registered-count', 'register(%d under %d) done %d times, announced by %d distinct registered events' % (key[0], key[1], cnt, got))
        for key in events_for:
            if key not in want:
                return bad('registered-spurious', 'registered%r announced without such a registration' % (key,))
        by_event = {}
        for obs, eid, ci in seen_unreg:
            by_event.setdefault(eid, []).append(obs)
        for eid, obs in by_event.items():
            if len(obs) != len(set(obs)):
                return bad('unregistered-seen-twice', 'an observer received the same unregistered event twice')
        uev = {}
        for obs, eid, ci in seen_unreg:
            uev.setdefault(ci, set()).add(eid)
        for ci in set(uev) | set(unreg_completed):
            if len(uev.get(ci, ())) != unreg_completed.get(ci, 0):
                return bad('unregistered-count', 'component %d: %d unregistrations completed, %d distinct unregistered events observed' % (
                    ci, unreg_completed.get(ci, 0), len(uev.get(ci, ()))))

        # ---- probes: each dispatched exactly once, received by exactly the members of the dispatching tree
        tags = [d[0] for d in disp]
        if len(tags) != len(set(tags)):
            return bad('probe-dispatched-twice', 'a probe was dispatched twice')
        if set(tags) != set(range(1, tagc[0] + 1)):
            return bad('probe-lost', 'probes never dispatched: %r' % sorted(set(range(1, tagc[0] + 1)) - set(tags))[:5])
        got = {}
        for tag, idx in recv:
            got.setdefault(tag, []).append(idx)
        for tag, ridx, must, may in disp:
            g = got.get(tag, [])
            if len(g) != len(set(g)):
                return bad('probe-received-twice', 'probe %d received twice by a component' % tag)
            gs = set(g)
            if not must <= gs:
                return bad('probe-missed-member', 'probe %d dispatched by root %d not received by tree members %r' % (tag, ridx, sorted(must - gs)))
            if not gs <= (must | may):
                return bad('probe-reached-outsider', 'probe %d dispatched by root %d received by %r which are not in its tree' % (tag, ridx, sorted(gs - must - may)))

        # probes queued on one detached component keep their firing order when its new root dispatches them
        groups = {}
        for tag, ridx, must, may in disp:
            if tag in crossed_from:
                groups.setdefault(crossed_from[tag], []).append(tag)
        for key, seq in groups.items():
            if seq != sorted(seq):
                return bad('drained-order', 'probes queued on detached component %d were dispatched by its new root as %r' % (key[0], seq))

        stuck = sum(unreg_started.values()) - sum(unreg_completed.values())
        classes = []
        if nested:
            classes.append('nested-unregistration')
        if rereg:
            classes.append('re-registration')
        if crossed:
            classes.append('probe-crossed-register')
        if stuck:
            classes.append('unregistration-never-completed')
        if again[0]:
            classes.append('unregister-while-pending')
        if inst_outside[0]:
            classes.append('probe-addressed-to-instance-outside-the-tree')
        return Result(True, nontrivial=bool((nested or rereg) and crossed), classes=classes)


PROP = C07()
