"""C02 — dispatch order: priority then FIFO per pass; handler priority; stop(); no re-entrancy.

Spec:
  {"driver": "tick"|"run",
   "waves": [[ [node, prio], ... ], ...]}     wave k is fired from outside before tick k (run: wave 0 only, before run())
  node = {"id": n, "handlers": [{"prio": p, "stop": bool, "kids": [[node, prio], ...]}, ...]}
"""
from hypothesis import strategies as st

from circuits import BaseComponent, Event
from circuits.core.handlers import handler as H
from vlib import driver
from vlib.runner import Prop, Result

EV_PRIOS = [0, 0, 1, -1, 3.5, -2.5, 5, 0.5]
H_PRIOS = [0, 1, -1, 2.5, -3]
MAX_H = 3


class node(Event):
    pass


def _renumber(waves):
    c = [0]

    def walk(n):
        c[0] += 1
        n['id'] = c[0]
        for h in n['handlers']:
            for k, _ in h['kids']:
                walk(k)

    for w in waves:
        for n, _ in w:
            walk(n)
    return waves


def _node_strategy(max_depth):
    leaf_h = st.fixed_dictionaries({
        'prio': st.sampled_from(H_PRIOS), 'stop': st.sampled_from([False] * 5 + [True]),
        'kids': st.just([])})

    def extend(children):
        hs = st.fixed_dictionaries({
            'prio': st.sampled_from(H_PRIOS),
            'stop': st.sampled_from([False] * 5 + [True]),
            'kids': st.lists(st.tuples(children, st.sampled_from(EV_PRIOS)).map(list), max_size=3)})
        return st.fixed_dictionaries({'id': st.just(0), 'handlers': st.lists(hs, min_size=1, max_size=MAX_H)})

    leaf = st.fixed_dictionaries({'id': st.just(0), 'handlers': st.lists(leaf_h, min_size=1, max_size=MAX_H)})
    s = leaf
    for _ in range(max_depth):
        s = st.one_of(leaf, extend(s))
    return s


class C02(Prop):
    id = 'C02'
    rule = ('programs of nested prioritised fires (hypothesis-generated trees of events; 1-3 handlers per event with '
            'priorities from {0,1,-1,2.5,-3} and optional stop(); children fired with priorities from '
            '{0,1,-1,3.5,-2.5,5,0.5}; extra waves fired between ticks) executed under tick() and under real run(); '
            'non-trivial = >=2 passes, >=2 distinct event priorities inside one pass, and a child fired with a lower '
            'priority value than an event already queued; distinct = distinct spec hash')
    assumptions = ('order among handlers of equal priority is unspecified and not asserted',
                   'whether an equal-priority handler runs after stop() is not asserted')
    budget = {'quick': (700, 4), 'thorough': (12000, 16)}

    shrink_lists = {'waves': 1, 'handlers': 1, 'kids': 0}

    def setup(self):
        driver.quiet_process()

    def strategy(self, tier):
        depth = 3 if tier == 'quick' else 5
        n = _node_strategy(depth)
        wave = st.lists(st.tuples(n, st.sampled_from(EV_PRIOS)).map(list), min_size=0, max_size=3)
        first = st.lists(st.tuples(n, st.sampled_from(EV_PRIOS)).map(list), min_size=1, max_size=3)
        return st.fixed_dictionaries({
            'driver': st.sampled_from(['tick', 'run']),
            'waves': st.tuples(first, st.lists(wave, max_size=3)).map(lambda t: [t[0]] + t[1]),
        }).map(lambda s: dict(s, waves=_renumber(s['waves'])))

    # ------------------------------------------------------------------ real execution
    def _run_real(self, spec):
        log = []      # (event id, handler index)
        depth = [0]
        reent = []
        fired_inside = []  # fire() returned before any handler of the fired event ran?

        class App(BaseComponent):
            pass

        app = App()

        def mk(hi, hp):
            @H('node', priority=hp)
            def f(self, event, n):
                if hi >= len(n['handlers']) or n['handlers'][hi]['prio'] != hp:
                    return
                h = n['handlers'][hi]
                depth[0] += 1
                if depth[0] > 1:
                    reent.append(n['id'])
                log.append((n['id'], hi))
                for kid, kp in h['kids']:
                    before = len(log)
                    self.fire(node(kid), priority=kp)
                    if len(log) != before:
                        fired_inside.append(kid['id'])
                if h['stop']:
                    event.stop()
                depth[0] -= 1
            f.__name__ = 'f_%d_%s' % (hi, str(hp).replace('.', '_').replace('-', 'm'))
            return f

        for hi in range(MAX_H):
            for hp in sorted(set(H_PRIOS)):
                app.addHandler(mk(hi, hp))

        waves = spec['waves']
        exhausted = False
        with driver.captured_stderr() as err:
            if spec['driver'] == 'tick':
                t = 0
                while True:
                    if t < len(waves):
                        for n, p in waves[t]:
                            app.fire(node(n), priority=p)
                    elif driver.quiescent(app):
                        break
                    app.tick()
                    t += 1
                    if t > 200:
                        exhausted = True
                        break
            else:
                for n, p in waves[0]:
                    app.fire(node(n), priority=p)
                idle = driver.run_to_quiescence(app, max_iter=200)
                exhausted = idle.exhausted or idle.blocked > 0
        return log, reent, fired_inside, len(app._queue), exhausted, err.getvalue()

    # ------------------------------------------------------------------ oracle
    def execute(self, spec):
        waves = spec['waves'] if spec['driver'] == 'tick' else spec['waves'][:1]
        spec = dict(spec, waves=waves)
        log, reent, fired_inside, left, exhausted, err = self._run_real(spec)
        specs = {}

        def walk(s):
            specs[s['id']] = s
            for h in s['handlers']:
                for k, _ in h['kids']:
                    walk(k)

        for w in waves:
            for s, _ in w:
                walk(s)

        def bad(clause, msg):
            return Result(False, clause, '%s driver=%s' % (msg, spec['driver']))

        if exhausted:
            return bad('no-quiescence', 'loop did not become quiescent')
        if err.strip():
            return bad('stderr', 'unexpected error output: %s' % err[-300:])
        if reent:
            return bad('reentrant', 'handler entered while another handler was running: %r' % reent[:5])
        if fired_inside:
            return bad('reentrant', 'fire() ran a handler before returning: %r' % fired_inside[:5])
        if left:
            return bad('queue-not-empty', 'queue not empty at quiescence')

        pos = {}
        ev_order = []
        for i, (eid, hi) in enumerate(log):
            if eid not in pos:
                pos[eid] = []
                ev_order.append(eid)
            pos[eid].append((i, hi))
        for eid, l in pos.items():
            idx = [i for i, _ in l]
            if idx != list(range(idx[0], idx[0] + len(idx))):
                return bad('interleaved', 'handlers of event %d not contiguous' % eid)
            hs = specs[eid]['handlers']
            pr = [hs[hi]['prio'] for _, hi in l]
            if pr != sorted(pr, reverse=True):
                return bad('handler-order', 'event %d handler priorities ran as %r' % (eid, pr))
            if len({hi for _, hi in l}) != len(l):
                return bad('handler-twice', 'event %d: a handler ran twice' % eid)
            ran = {hi for _, hi in l}
            stops = [hs[hi]['prio'] for _, hi in l if hs[hi]['stop']]
            if stops:
                sp = max(stops)
                for hi, h in enumerate(hs):
                    if h['prio'] < sp and hi in ran:
                        return bad('ran-after-stop', 'event %d handler %d (prio %r) ran after stop at prio %r' % (eid, hi, h['prio'], sp))
                    if h['prio'] > sp and hi not in ran:
                        return bad('handler-missing', 'event %d handler %d did not run' % (eid, hi))
            else:
                # no handler that ran stopped; but a stopper that did not run would itself be "missing"
                if ran != set(range(len(hs))):
                    return bad('handler-missing', 'event %d: handlers %r did not run' % (eid, sorted(set(range(len(hs))) - ran)))

        # pass simulation using the children of the handlers that actually ran, in the order they ran
        ran_by_event = {eid: [hi for _, hi in l] for eid, l in pos.items()}
        seq = 0
        queue = []
        expect = []
        passes = 0
        mixed_pass = False
        overtaker = False
        t = 0
        while True:
            if t < len(waves):
                for s, p in waves[t]:
                    queue.append((p, seq, s['id']))
                    seq += 1
            elif not queue:
                break
            t += 1
            if not queue:
                continue
            batch = sorted(queue)
            queue = []
            passes += 1
            if len({p for p, _, _ in batch}) >= 2:
                mixed_pass = True
            for bi, (p, s, eid) in enumerate(batch):
                expect.append(eid)
                for hi in ran_by_event.get(eid, []):
                    for kid, kp in specs[eid]['handlers'][hi]['kids']:
                        queue.append((kp, seq, kid['id']))
                        seq += 1
                        if any(kp < p2 for p2, _, _ in batch[bi + 1:]):
                            overtaker = True
        if expect != ev_order:
            k = 0
            while k < min(len(expect), len(ev_order)) and expect[k] == ev_order[k]:
                k += 1
            if len(ev_order) < len(expect) and k == len(ev_order):
                return bad('event-lost', 'events never dispatched: expected %r' % expect[k:k + 5])
            if sorted(expect) != sorted(ev_order):
                return bad('event-lost-or-dup', 'multiset of dispatched events differs at position %d: expected %r got %r' % (k, expect[k:k + 5], ev_order[k:k + 5]))
            return bad('event-order', 'dispatch order differs at position %d: expected %r got %r' % (k, expect[k:k + 5], ev_order[k:k + 5]))

        nontrivial = passes >= 2 and mixed_pass and overtaker
        classes = ['driver:' + spec['driver']]
        if any(specs[e]['handlers'][hi]['stop'] for e, hi in log):
            classes.append('stop-executed')
        if len(waves) > 1 and any(waves[1:]):
            classes.append('outside-wave')
        if overtaker:
            classes.append('child-lower-prio-than-queued')
        return Result(True, nontrivial=nontrivial, classes=classes)


PROP = C02()
