"""C02 — dispatch order: priority then FIFO per pass; handler priority; stop(); no re-entrancy.

Spec:
  {"driver": "tick"|"run",
   "multi": bool                              events are fired to the two channels ('a','b') at once, handlers spread over them
   "waves": [[ [node, prio], ... ], ...]}     wave k is fired from outside before tick k (run: wave 0 only, before run())
  node = {"id": n, "handlers": [{"prio": p, "stop": bool, "flush": bool, "raise": bool, "kids": [[node, prio], ...]}, ...]}
A handler fires its kids, then (flush) calls self.flush() recursively, then (stop) calls event.stop() and (refire) fires the
same event object again, then (raise) raises.

Oracle (c) is an online reference queue machine replayed over the harness' own action log (FIRE / event start): whenever an
event starts while the model's current pass is empty a new pass is taken (the queue sorted by (priority, fire sequence));
every started event must be the head of the current pass. That is exact for plain programs and for recursive flush()
(which continues the running pass, or starts the next one if the pass is exhausted).
"""
from hypothesis import strategies as st

from circuits import BaseComponent, Event
from circuits.core.handlers import handler as H
from vlib import driver
from vlib.runner import Prop, Result

EV_PRIOS = [0, 0, 1, -1, 3.5, -2.5, 5, 0.5, 1e-05, -1e-05, 0.99999]      # incl. values closer together than any event counter step
H_PRIOS = [0, 1, -1, 2.5, -3]
MAX_H = 3


class node(Event):
    pass


class Boom(Exception):
    pass


def _renumber(waves):
    c = [0]

    def walk(n):
        c[0] += 1
        n['id'] = c[0]
        for h in n['handlers']:
            for k, _ in h['kids']:
                walk(k)

    for w in waves:
        for n, _ in w:
            walk(n)
    return waves


def _node_strategy(max_depth):
    def hdict(kids):
        return st.fixed_dictionaries({
            'prio': st.sampled_from(H_PRIOS),
            'stop': st.sampled_from([False] * 5 + [True]),
            'flush': st.sampled_from([False] * 9 + [True]),
            'raise': st.sampled_from([False] * 9 + [True]),
            'refire': st.sampled_from([False] * 7 + [True]),
            'kids': kids})

    def extend(children):
        hs = hdict(st.lists(st.tuples(children, st.sampled_from(EV_PRIOS)).map(list), max_size=3))
        return st.fixed_dictionaries({'id': st.just(0), 'handlers': st.lists(hs, min_size=1, max_size=MAX_H)})

    leaf = st.fixed_dictionaries({'id': st.just(0), 'handlers': st.lists(hdict(st.just([])), min_size=1, max_size=MAX_H)})
    s = leaf
    for _ in range(max_depth):
        s = st.one_of(leaf, extend(s))
    return s


class C02(Prop):
    id = 'C02'
    rule = ('programs of nested prioritised fires (hypothesis-generated trees of events; 1-3 handlers per event with '
            'priorities from {0,1,-1,2.5,-3}, optional stop(), optional recursive flush(), optional raise after stop; children '
            'fired with priorities from {0,1,-1,3.5,-2.5,5,0.5,1e-05,-1e-05,0.99999}; extra waves fired between ticks; priority-0 events optionally fired without a priority argument; two-channel fires) executed under tick() and '
            'under real run(); non-trivial = >=2 passes, >=2 distinct event priorities inside one pass, and a child fired with '
            'a lower priority value than an event still waiting in the running pass; plus enumerated backlogs of 10..5000 (thorough 70000) events queued before one flush pass; distinct = distinct spec hash')
    assumptions = ('order among handlers of equal priority is unspecified and not asserted',
                   'whether an equal-priority handler runs after stop() is not asserted',
                   'handlers run nested only inside an explicit recursive flush(); fire() itself must never run a handler')
    budget = {'quick': (1200, 4), 'thorough': (20000, 16)}

    shrink_lists = {'waves': 1, 'handlers': 1, 'kids': 0}

    def setup(self):
        driver.quiet_process()

    def normalize(self, spec):
        return spec if 'bulk' in spec else dict(spec, waves=_renumber(spec['waves']))

    def strategy(self, tier):
        depth = 3 if tier == 'quick' else 5
        n = _node_strategy(depth)
        wave = st.lists(st.tuples(n, st.sampled_from(EV_PRIOS)).map(list), min_size=0, max_size=3)
        first = st.lists(st.tuples(n, st.sampled_from(EV_PRIOS)).map(list), min_size=1, max_size=3)
        return st.fixed_dictionaries({
            'driver': st.sampled_from(['tick', 'run']),
            'multi': st.sampled_from([False, False, True]),
            'defprio': st.booleans(),
            'waves': st.tuples(first, st.lists(wave, max_size=3)).map(lambda t: [t[0]] + t[1]),
        }).map(lambda s: dict(s, waves=_renumber(s['waves'])))

    # ------------------------------------------------------------------ real execution
    def _run_real(self, spec):
        log = []      # ('fire', parent|None, kid id, prio) | ('h', eid, hi) | ('hend', eid, hi) | ('fb', eid, hi) | ('fe', eid, hi)

        multi = bool(spec.get('multi'))
        chans = ('a', 'b') if multi else ()
        defprio = bool(spec.get('defprio'))

        def PK(p):
            # defprio: an event of priority 0 is fired without a priority argument (the default IS 0), inside and outside handlers
            return {} if (defprio and p == 0 and isinstance(p, int)) else {'priority': p}

        class App(BaseComponent):
            def _dispatcher(self, event, channels, remaining):
                if isinstance(event, node):
                    event._dn = getattr(event, '_dn', 0) + 1     # observer: which dispatch of this event object is this
                return super()._dispatcher(event, channels, remaining)

            @H('exception', channel='*')
            def _x(self, etype, evalue, tb, handler=None, fevent=None):
                if not isinstance(evalue, Boom):
                    log.append(('stray', repr(evalue)))

        class Sub(BaseComponent):
            pass

        # multi: events are fired to the two channels ('a', 'b') at once; even handler slots listen on 'a' (root), odd ones on 'b'
        app = App(channel='a' if multi else '*')
        sub = Sub(channel='b' if multi else '*').register(app)

        def mk(hi, hp):
            @H('node', priority=hp)
            def f(self, event, n):
                if hi >= len(n['handlers']) or n['handlers'][hi]['prio'] != hp:
                    return
                if getattr(event, '_dn', 1) > 1:
                    return      # second dispatch of a re-fired event object: outside the model
                h = n['handlers'][hi]
                log.append(('h', n['id'], hi))
                try:
                    for kid, kp in h['kids']:
                        log.append(('fire', n['id'], kid['id'], kp))
                        self.fire(node(kid), *chans, **PK(kp))
                        log.append(('fired', n['id'], kid['id']))
                    if h.get('flush'):
                        log.append(('fb', n['id'], hi))
                        self.flush()
                        log.append(('fe', n['id'], hi))
                    if h['stop']:
                        event.stop()
                        if h.get('refire'):
                            # defer/requeue pattern: after stop() the very same event object is fired again
                            self.fire(event, *chans, priority=7)
                    if h.get('raise'):
                        raise Boom((n['id'], hi))
                finally:
                    log.append(('hend', n['id'], hi))
            f.__name__ = 'f_%d_%s' % (hi, str(hp).replace('.', '_').replace('-', 'm'))
            return f

        for hi in range(MAX_H):
            for hp in sorted(set(H_PRIOS)):
                (sub if hi % 2 else app).addHandler(mk(hi, hp))
        driver.settle(app, 10)

        waves = spec['waves']
        exhausted = False
        escaped = None
        with driver.captured_stderr() as err:
            try:
                if spec['driver'] == 'tick':
                    t = 0
                    while True:
                        if t < len(waves):
                            for n, p in waves[t]:
                                log.append(('fire', None, n['id'], p))
                                app.fire(node(n), *chans, **PK(p))
                        elif driver.quiescent(app):
                            break
                        app.tick()
                        t += 1
                        if t > 200:
                            exhausted = True
                            break
                else:
                    for n, p in waves[0]:
                        log.append(('fire', None, n['id'], p))
                        app.fire(node(n), *chans, **PK(p))
                    idle = driver.run_to_quiescence(app, max_iter=200)
                    exhausted = idle.exhausted or idle.blocked > 0
            except BaseException as e:  # noqa
                escaped = repr(e)
        return log, len(app._queue), exhausted, escaped, err.getvalue()

    # ------------------------------------------------------------------ oracle
    def _bulk(self, spec):
        """{"bulk": N, "prios": [...], "driver": "tick"}: N events with priorities cycling through ``prios`` are queued from
        outside before ONE flush pass; the handler of every 97th one fires a follow-up with a very low priority value.
        Expected: the pass dispatches exactly the N queued events sorted by (priority, fire order); every follow-up
        comes after all of them, the follow-ups again sorted."""
        n, prios = spec['bulk'], spec['prios']
        log = []

        class App(BaseComponent):
            @H('node')
            def _n(self, event, k, follow):
                log.append(k)
                if follow:
                    self.fire(node(-k - 1, False), priority=-9)

            @H('exception', channel='*')
            def _x(self, etype, evalue, tb, handler=None, fevent=None):
                log.append(('x', repr(evalue)[:80]))

        app = App()
        driver.settle(app, 10)
        queued = []
        with driver.captured_stderr() as err:
            for k in range(n):
                p = prios[k % len(prios)]
                queued.append((p, k))
                app.fire(node(k, k % 97 == 5), **({} if p == 0 and spec.get('defprio') else {'priority': p}))
            app.flush()
            first_pass = list(log)
            left = driver.settle(app, 50)
        classes = ['bulk', 'bulk>1024' if n > 1024 else 'bulk<=1024']

        def bad(clause, msg):
            return Result(False, clause, '%s [bulk of %d events, priorities %r]' % (msg, n, prios), True, classes)
        if any(isinstance(l, tuple) for l in log):
            return bad('stray-exception', 'exception event: %r' % ([l for l in log if isinstance(l, tuple)][:1],))
        want = [k for p, k in sorted(queued, key=lambda t: (t[0], t[1]))]
        if first_pass != want:
            i = next((i for i, (a, b) in enumerate(zip(first_pass, want)) if a != b), min(len(first_pass), len(want)))
            return bad('event-order', 'one flush pass over %d queued events dispatched %d; first difference at position %d: got %r, expected %r' % (
                n, len(first_pass), i, first_pass[i:i + 3], want[i:i + 3]))
        rest = log[len(first_pass):]
        want_rest = [-k - 1 for k in want if k % 97 == 5]
        if rest != want_rest:
            return bad('event-order', 'follow-up events dispatched %r..., expected %r...' % (rest[:5], want_rest[:5]))
        if left < 0 or len(app._queue):
            return bad('no-quiescence', 'queue not drained')
        if err.getvalue().strip():
            return bad('stderr', err.getvalue()[-200:])
        return Result(True, nontrivial=True, classes=classes)

    def enumerate(self, tier):
        out = []
        for n in ((10, 1500, 5000) if tier == 'quick' else (10, 1023, 1024, 1025, 5000, 70000)):
            for prios in ([0], [0, 0, 5, -1, 0.5], [3, 2, 1, 0, -1, -2]):
                out.append({'bulk': n, 'prios': prios, 'driver': 'tick', 'defprio': bool(n % 2)})
        return out

    def execute(self, spec):
        if 'bulk' in spec:
            return self._bulk(spec)
        waves = spec['waves'] if spec['driver'] == 'tick' else spec['waves'][:1]
        spec = dict(spec, waves=waves)
        log, left, exhausted, escaped, err = self._run_real(spec)
        specs = {}

        def walk(s):
            specs[s['id']] = s
            for h in s['handlers']:
                for k, _ in h['kids']:
                    walk(k)

        for w in waves:
            for s, _ in w:
                walk(s)

        def bad(clause, msg):
            return Result(False, clause, '%s driver=%s' % (msg, spec['driver']))

        if escaped:
            return bad('exception-escaped', 'exception escaped the loop: %s' % escaped)
        if exhausted:
            return bad('no-quiescence', 'loop did not become quiescent')
        stray = [l for l in log if l[0] == 'stray']
        if stray:
            return bad('stray-exception', 'unexpected exception event %r' % (stray[:2],))
        if err.strip():
            return bad('stderr', 'unexpected error output: %s' % err[-300:])
        if left:
            return bad('queue-not-empty', 'queue not empty at quiescence')

        # ---- (a) re-entrancy: a handler may only start while another is running if that one is inside flush()
        stack = []   # [eid, hi, in_flush]
        for l in log:
            if l[0] == 'h':
                if stack and not stack[-1][2]:
                    return bad('reentrant', 'handler %r entered while handler %r was running (not inside flush())' % (l[1:], tuple(stack[-1][:2])))
                stack.append([l[1], l[2], False])
            elif l[0] == 'fb':
                stack[-1][2] = True
            elif l[0] == 'fe':
                stack[-1][2] = False
            elif l[0] == 'hend':
                stack.pop()

        # ---- (b) per event: handler priority order, each handler once, stop() cut-off
        pos = {}
        for i, l in enumerate(log):
            if l[0] == 'h':
                pos.setdefault(l[1], []).append(l[2])
        for eid, ran_list in pos.items():
            hs = specs[eid]['handlers']
            pr = [hs[hi]['prio'] for hi in ran_list]
            if pr != sorted(pr, reverse=True):
                return bad('handler-order', 'event %d handler priorities ran as %r' % (eid, pr))
            if len(set(ran_list)) != len(ran_list):
                return bad('handler-twice', 'event %d: a handler ran twice' % eid)
            ran = set(ran_list)
            stops = [hs[hi]['prio'] for hi in ran_list if hs[hi]['stop']]
            if stops:
                sp = max(stops)
                for hi, h in enumerate(hs):
                    if h['prio'] < sp and hi in ran:
                        return bad('ran-after-stop', 'event %d handler %d (prio %r) ran after stop at prio %r' % (eid, hi, h['prio'], sp))
                    if h['prio'] > sp and hi not in ran:
                        return bad('handler-missing', 'event %d handler %d did not run' % (eid, hi))
            elif ran != set(range(len(hs))):
                return bad('handler-missing', 'event %d: handlers %r did not run' % (eid, sorted(set(range(len(hs))) - ran)))

        # ---- (c) reference queue machine over the action log
        queue = []      # (prio, seq, id)
        batch = []
        seq = 0
        started = set()
        order = []
        passes = 0
        mixed_pass = False
        overtaker = False
        fired_ids = []
        for l in log:
            if l[0] == 'fire':
                queue.append((l[3], seq, l[2]))
                seq += 1
                fired_ids.append(l[2])
                if any(l[3] < p for p, _, _ in batch):
                    overtaker = True
            elif l[0] == 'h' and l[1] not in started:
                eid = l[1]
                started.add(eid)
                order.append(eid)
                if not batch:
                    batch = sorted(queue)
                    queue = []
                    passes += 1
                    if len({p for p, _, _ in batch}) >= 2:
                        mixed_pass = True
                if not batch:
                    return bad('event-unknown', 'event %d dispatched but never fired' % eid)
                if batch[0][2] != eid:
                    exp = [b[2] for b in batch[:4]]
                    if eid in [b[2] for b in batch]:
                        return bad('event-order', 'event %d dispatched while the running pass expects %r first' % (eid, exp))
                    return bad('event-overtakes-pass', 'event %d (fired during this pass) dispatched before the events that were already queued: %r' % (eid, exp))
                batch.pop(0)
        if len(order) != len(set(order)):
            return bad('event-duplicated', 'an event was dispatched twice')
        missing = [i for i in fired_ids if i not in started]
        if missing or batch or queue:
            return bad('event-lost', 'events fired but never dispatched: %r' % (missing[:6],))

        nontrivial = passes >= 2 and mixed_pass and overtaker
        classes = ['driver:' + spec['driver']]
        if spec.get('defprio'):
            classes.append('priority-0-fired-without-priority-argument')
        ranh = [(l[1], l[2]) for l in log if l[0] == 'h']
        if any(specs[e]['handlers'][hi]['stop'] for e, hi in ranh):
            classes.append('stop-executed')
        if spec.get('multi'):
            classes.append('fired-to-two-channels')
        if any(specs[e]['handlers'][hi].get('refire') and specs[e]['handlers'][hi]['stop'] for e, hi in ranh):
            classes.append('stop-then-refire-same-object')
        if any(specs[e]['handlers'][hi].get('flush') for e, hi in ranh):
            classes.append('recursive-flush')
        if any(specs[e]['handlers'][hi].get('raise') and specs[e]['handlers'][hi]['stop'] for e, hi in ranh):
            classes.append('stop-then-raise')
        if len(waves) > 1 and any(waves[1:]):
            classes.append('outside-wave')
        if overtaker:
            classes.append('child-lower-prio-than-queued')
        return Result(True, nontrivial=nontrivial, classes=classes)


PROP = C02()
