"""C12 — every connection: one connect, ordered reads, one disconnect, then no trace.

Spec (server mode; the same history is executed under Select, Poll and EPoll):
  {"mode": "server", "sndbuf": 0|1, "ops": [[op, a, b, k], ...]}
     op   peer / server action (see OPS); a selects the peer or server-side socket (index modulo the
          currently eligible set), b selects a size or flag, k = loop iterations executed after the op
     'hangup' arms the application: the peer sends HANGUP_SIZES[b] bytes at once (several x Server bufsize) and the
          observer reacts to the NEXT read event of that socket by firing close(sock) (b in HANGUP_WRITES: write(sock,
          reply) first) from inside the handler -- the close is then processed while the poller has already queued
          another _read for the socket and the rest of the input is still unread;
     'sclose' with odd b hands the close to the loop AFTER the iteration's generate_events (an application thread /
          handler firing close between the poll and the dispatch of the poller's _read/_write events)
     sndbuf=1: the listener is created with socket_options=[SO_SNDBUF 4096] (inherited by accepted
          sockets) so that server-side writes to a peer that stopped reading stay in Server._buffers
Spec (client mode; TCPClient against a raw listening socket owned by the harness):
  {"mode": "client", "ops": [[op, a, b, k], ...]}

One loop iteration = ``root.fire(generate_events(root._lock, 0), '*'); root.tick()``.

Oracle (per poller universe; the three universes are judged independently by the same rules, their histories
may legitimately diverge because an op is resolved against what the observer has seen so far):
  * per server-side socket the observer's connect/read/error/disconnect events match
    connect . (read | error)* . disconnect  and NOTHING naming that socket follows (no read, no error, no second
    disconnect); error events before the disconnect are legal and not counted; an error for a socket that was
    never announced (reset before accept) is legal; every peer that was not reset before the server accepted it
    is announced;
  * concatenated read data is a prefix of what the peer sent, and all of it when the connection ended without
    any possible reset (no abort, nothing unread/untransmitted at the peer's close, no server-side close);
  * a close(sock) the application asked for completes while the peer is still there and reading;
  * after all peers are gone: Server._clients/_buffers/_closeq empty, poller _read/_write/_targets/_map hold only
    the listener and the control pipe -- whatever late write/close was addressed to dead sockets;
  * client mode: connected/disconnected alternate, one disconnected per connected at the end.
Never waited for: time. If the component still holds data for a socket and is registered as writer but the kernel
does not take the data within the iteration bound (zero window, retransmission timers of a peer with a tiny
receive buffer), the pending deferred close is reported as an inconclusive case, not as a violation.
"""
import hashlib
import os
import socket
import struct

from hypothesis import strategies as st

from circuits import BaseComponent, Manager
from circuits.core.events import generate_events
from circuits.core.handlers import handler
from circuits.core.pollers import EPoll, Poll, Select
from circuits.net.events import close as close_ev
from circuits.net.events import connect as connect_ev
from circuits.net.events import write as write_ev
from circuits.net.sockets import TCPClient, TCPServer
from vlib import driver
from vlib.runner import Prop, Result

POLLERS = (('select', Select), ('poll', Poll), ('epoll', EPoll))

# deterministic payload material: peer p sends STREAM[p*4099 + offset ...]; long non-periodic so that a
# lost, duplicated or reordered chunk can never look like a prefix
_blk = []
for _i in range(42000):
    _blk.append(hashlib.sha256(b'c12-%d' % _i).digest())
STREAM = b''.join(_blk)
del _blk
SRV_DATA = bytes((i * 7 + (i >> 8)) & 0xFF for i in range(70000))

SEND_SIZES = [1, 7, 100, 1000, 4096, 4097, 9000, 30000]
SWRITE_SIZES = [1, 50, 700, 5000, 20000, 60000, 9, 300]
# 'hangup': bytes the peer sends in one go before the application hangs up on the first read (Server bufsize is 4096:
# more than 2 x bufsize unread means that a further _read is already queued when the close is processed) ...
HANGUP_SIZES = [100, 8192, 8193, 12289, 20000, 30000, 60000, 30000]
# ... and the size of the reply written from the read handler just before the close (0: plain close)
HANGUP_WRITES = [0, 0, 0, 50, 0, 0, 0, 20000]
MAX_PEERS = 4
LINGER0 = struct.pack('ii', 1, 0)
SETTLE_BOUND = 400

SERVER_OPS = (['conn'] * 5 + ['send'] * 5 + ['shut'] * 2 + ['close'] * 2 + ['abort'] * 3 + ['drain'] +
              ['swrite'] * 3 + ['sclose'] * 2 + ['swclose'] * 2 + ['lwrite'] * 3 + ['lclose'] * 3 + ['step'] +
              ['hangup'] * 4)
CLIENT_OPS = (['connect'] * 4 + ['psend'] * 3 + ['pshut'] * 2 + ['pclose'] * 2 + ['pabort'] * 2 +
              ['cwrite'] * 2 + ['cclose'] * 2 + ['cwclose'] * 2 + ['step'])


_LB = [0]


def _loopback():
    """A different 127.a.b.c address per universe: every case leaves sockets in TIME_WAIT for 60 s, and a long run on one
    address exhausts the ephemeral port range (bind(0) then fails with EADDRINUSE; seen in the first thorough run)."""
    import os
    _LB[0] += 1
    n = _LB[0]
    return '127.%d.%d.%d' % (1 + os.getpid() % 200, 1 + (n // 250) % 250, 1 + n % 250)


class _Escaped(Exception):
    """An exception left tick(): the loop of a real application would have died."""


# ---------------------------------------------------------------------------------------------- observers
class SrvObs(BaseComponent):
    channel = 'server'

    def init(self):
        self.socks = []      # server-side socket objects in order of first appearance (kept alive: identity)
        self.ev = []         # (kind, sock index, payload)
        self.errors = 0
        self.excs = []
        self.srv = None
        self.nread = {}      # sock index -> bytes announced by read events so far
        self.armed = {}      # sock index -> size of the reply to write before hanging up on the next read (0: none)
        self.hangups = []    # (sock index, bytes read up to and including the triggering read, reply size)
        self.unannounced_errors = 0
        self.stale = set()   # '_read'/'_write' dispatched for a socket the server had already closed

    def known(self, sock):
        for i, s in enumerate(self.socks):
            if s is sock:
                return i
        return None

    def idx(self, sock):
        for i, s in enumerate(self.socks):
            if s is sock:
                return i
        self.socks.append(sock)
        return len(self.socks) - 1

    @handler('connect', priority=50)
    def _c(self, sock, *peer):
        self.ev.append(('connect', self.idx(sock), tuple(peer)))

    @handler('read', priority=50)
    def _r(self, sock, data):
        i = self.idx(sock)
        self.ev.append(('read', i, bytes(data)))
        self.nread[i] = self.nread.get(i, 0) + len(data)
        if i in self.armed:
            # the application hangs up in reaction to what it has just read ("bad request")
            n = self.armed.pop(i)
            if n:
                self.fire(write_ev(sock, SRV_DATA[:n]))
            self.fire(close_ev(sock))
            self.hangups.append((i, self.nread[i], n))

    @handler('disconnect', priority=50)
    def _d(self, sock=None, *a):
        self.ev.append(('disconnect', self.idx(sock), None))

    @handler('error', priority=50)
    def _e(self, *a):
        self.errors += 1
        if a and isinstance(a[0], socket.socket):
            i = self.known(a[0])
            if i is None:
                self.unannounced_errors += 1     # e.g. reset before accept: no connect, so no socket history
            else:
                self.ev.append(('error', i, str(a[1])[:60] if len(a) > 1 else None))

    @handler('_read', '_write', priority=50)
    def _p(self, event, sock):
        # measurement only: the poller's event reaches the server after the server closed that socket
        srv = self.srv
        if srv is not None and sock is not srv._sock and self.known(sock) is not None and sock not in srv._clients:
            self.stale.add(event.name)

    @handler('exception', channel='*', priority=50)
    def _x(self, etype, evalue, tb, handler=None, fevent=None):
        self.excs.append('%s: %s' % (getattr(etype, '__name__', etype), str(evalue)[:80]))


class CliObs(BaseComponent):
    channel = 'client'

    def init(self):
        self.ev = []
        self.errors = 0
        self.excs = []
        self.data = []

    @handler('connected', priority=50)
    def _c(self, *a):
        self.ev.append('connected')

    @handler('disconnected', priority=50)
    def _d(self, *a):
        self.ev.append('disconnected')

    @handler('read', priority=50)
    def _r(self, data):
        self.data.append(bytes(data))

    @handler('error', 'unreachable', priority=50)
    def _e(self, *a):
        self.errors += 1

    @handler('exception', channel='*', priority=50)
    def _x(self, etype, evalue, tb, handler=None, fevent=None):
        self.excs.append('%s: %s' % (getattr(etype, '__name__', etype), str(evalue)[:80]))


class _Peer:
    __slots__ = ('n', 'sock', 'addr', 'sent', 'shut', 'closed', 'aborted', 'drained', 'sidx', 'reset_possible',
                 'aborted_unmatched', 'slow')

    def __init__(self, n, sock, slow):
        self.n = n
        self.sock = sock
        self.addr = sock.getsockname()
        self.sent = 0
        self.shut = False
        self.closed = False
        self.aborted = False
        self.drained = 0
        self.sidx = None
        self.reset_possible = False
        self.aborted_unmatched = False
        self.slow = slow


def _quickack(sock):
    """Flush a delayed ACK now: otherwise the progress of a sender with a small send buffer would depend on
    the kernel's delayed-ACK timer (wall clock) instead of on loop iterations."""
    try:
        sock.setsockopt(socket.IPPROTO_TCP, socket.TCP_QUICKACK, 1)
    except OSError:
        pass


def _close_poller(poller):
    for fd in (poller._ctrl_recv, poller._ctrl_send):
        try:
            os.close(fd)
        except OSError:
            pass
    p = getattr(poller, '_poller', None)
    if p is not None and hasattr(p, 'close'):
        try:
            p.close()
        except Exception:
            pass


# ------------------------------------------------------------------------------------------ server universe
class _ServerRun:
    def __init__(self, spec, pname, P):
        self.spec = spec
        self.pname = pname
        self.P = P
        self.peers = []
        self.classes = set()
        self.iters = 0
        self.late_done = False
        self.swritten = {}      # sidx -> bytes handed to write() before the disconnect was observed
        self.sclosed = set()    # sidx for which a server-side close was requested before the disconnect
        self.disc = set()       # sidx whose disconnect has been observed
        self.matched = 0        # events already scanned for connect/disconnect
        self.hseen = 0          # hangups (close fired by the observer's read handler) already accounted for
        self.after_poll = []    # events handed to the loop after this iteration's generate_events
        self.escaped = None
        self.close_ignored = None
        self.inconclusive = False

    # -- loop
    def it(self, n=1):
        root = self.root
        for _ in range(n):
            try:
                root.fire(generate_events(root._lock, 0), '*')
                if self.after_poll:
                    pending, self.after_poll = self.after_poll, []
                    for e in pending:
                        root.fire(e, 'server')
                root.tick()
            except Exception as e:  # an exception leaving tick() would end run()
                self.escaped = '%s: %s' % (type(e).__name__, str(e)[:120])
                raise _Escaped()
            self.iters += 1
            self.scan()

    def scan(self):
        ev = self.obs.ev
        while self.matched < len(ev):
            kind, sidx, payload = ev[self.matched]
            self.matched += 1
            if kind == 'connect':
                for p in reversed(self.peers):
                    if p.sidx is None and p.addr == payload[:2]:
                        p.sidx = sidx
                        break
            elif kind == 'disconnect':
                self.disc.add(sidx)
        srv = self.srv
        hangups = self.obs.hangups
        while self.hseen < len(hangups):
            sidx, nread, nw = hangups[self.hseen]
            self.hseen += 1
            self.sclosed.add(sidx)
            self.classes.add('server-close')
            self.classes.add('close-in-read-handler')
            if nw:
                self.swritten[sidx] = self.swritten.get(sidx, 0) + nw
            p = self.peer_of(sidx)
            if p is not None:
                if nw and p.closed:
                    p.reset_possible = True
                if p.sent - nread > 2 * srv._bufsize:
                    # the shape: close processed while >2 reads worth of input is pending => a _read is in the queue
                    self.classes.add('close-in-read-handler:backlog>2xbufsize')
        if srv._closeq:
            self.classes.add('closeq-used')
        for q in list(srv._buffers.values()):
            if q:
                self.classes.add('server-buffer-nonempty')
                break

    # -- eligible sets
    def live_peers(self):
        return [p for p in self.peers if not p.closed]

    def live_socks(self):
        seen = []
        for kind, sidx, _ in self.obs.ev:
            if kind == 'connect' and sidx not in self.disc and sidx not in seen:
                seen.append(sidx)
        return seen

    def dead_socks(self):
        return sorted(self.disc)

    def peer_of(self, sidx):
        for p in self.peers:
            if p.sidx == sidx:
                return p
        return None

    def buffered(self, sidx):
        return bool(self.srv._buffers.get(self.obs.socks[sidx]))

    # -- ops
    def op(self, name, a, b, k):
        if name == 'conn':
            if len(self.live_peers()) < MAX_PEERS:
                slow = (a % 3 == 0)
                c = socket.socket(socket.AF_INET, socket.SOCK_STREAM)
                if slow:
                    c.setsockopt(socket.SOL_SOCKET, socket.SO_RCVBUF, 2048)
                    self.classes.add('slow-reader')
                c.connect((self.addr, self.port))
                c.setblocking(False)
                p = _Peer(len(self.peers), c, slow)
                self.peers.append(p)
                if len(self.live_peers()) >= 3:
                    self.classes.add('concurrent>=3')
                if b % 8 < 5:
                    # usual case: let the loop accept it (bounded; condition visible to the harness)
                    for _ in range(50):
                        if p.sidx is not None:
                            break
                        self.it()
                else:
                    self.classes.add('conn-not-awaited')
                    if b % 8 == 5:
                        # fire-and-forget peer: connect, send, close before the server even accepted
                        off = p.n * 4099
                        try:
                            p.sent += c.send(STREAM[off:off + 100])
                        except OSError:
                            pass
                        self.end_peer(p, abort=False)
                        self.classes.add('closed-before-accept')
                    elif b % 8 == 6:
                        # port-scan shape: connect and reset at once
                        self.end_peer(p, abort=True)
        elif name == 'send':
            c = [p for p in self.live_peers() if not p.shut]
            if c:
                self.peer_send(c[a % len(c)], SEND_SIZES[b % len(SEND_SIZES)])
        elif name == 'hangup':
            c = [p for p in self.live_peers() if not p.shut and p.sidx is not None and p.sidx not in self.disc
                 and p.sidx not in self.obs.armed]
            if c:
                p = c[a % len(c)]
                self.obs.armed[p.sidx] = HANGUP_WRITES[b % len(HANGUP_WRITES)]
                self.peer_send(p, HANGUP_SIZES[b % len(HANGUP_SIZES)])
                self.classes.add('hangup-armed')
        elif name == 'shut':
            c = [p for p in self.live_peers() if not p.shut]
            if c:
                p = c[a % len(c)]
                try:
                    p.sock.shutdown(socket.SHUT_WR)
                except OSError:
                    pass
                p.shut = True
                self.classes.add('halfclose')
                if p.sidx is not None and p.sidx not in self.disc and self.buffered(p.sidx):
                    self.classes.add('peer-ends-while-server-writing')
        elif name in ('close', 'abort'):
            c = self.live_peers()
            if c:
                p = c[a % len(c)]
                self.end_peer(p, abort=(name == 'abort'), drain_first=(name == 'close' and b % 2 == 1))
        elif name == 'drain':
            c = self.live_peers()
            if c:
                self.drain(c[a % len(c)])
        elif name in ('swrite', 'sclose', 'swclose', 'lwrite', 'lclose'):
            live, dead = self.live_socks(), self.dead_socks()
            late = name[0] == 'l'
            pool = (dead or live) if late else (live or dead)
            if pool:
                sidx = pool[a % len(pool)]
                sock = self.obs.socks[sidx]
                is_late = sidx in self.disc
                if name.endswith('write') or name == 'swclose':
                    n = SWRITE_SIZES[b % len(SWRITE_SIZES)]
                    if is_late:
                        self.classes.add('late-write')
                        self.late_done = True
                    else:
                        self.swritten[sidx] = self.swritten.get(sidx, 0) + n
                        p = self.peer_of(sidx)
                        if p is not None and p.closed:
                            p.reset_possible = True   # data sent to a fully closed peer is answered by RST
                    self.root.fire(write_ev(sock, SRV_DATA[:n]), 'server')
                if name.endswith('close'):      # swclose = "send this and hang up" in one go
                    if is_late:
                        self.classes.add('late-close')
                        self.late_done = True
                    else:
                        self.sclosed.add(sidx)
                        self.classes.add('server-close')
                    if name == 'sclose' and b % 2 == 1 and not is_late:
                        # the close reaches the queue behind this iteration's generate_events: whatever the poller
                        # reports for the socket now is dispatched after the socket has been closed
                        self.after_poll.append(close_ev(sock))
                        self.classes.add('close-after-poll')
                        p = self.peer_of(sidx)
                        if p is not None and p.sent > self.obs.nread.get(sidx, 0):
                            self.classes.add('close-after-poll:unread-input')
                    else:
                        self.root.fire(close_ev(sock), 'server')
        self.it(k)

    def peer_send(self, p, n):
        off = p.n * 4099 + p.sent
        try:
            sent = p.sock.send(STREAM[off:off + n])
        except (BlockingIOError, InterruptedError):
            sent = 0
        except OSError:
            # the server already closed/reset this connection: nothing more can be sent
            sent = 0
            p.shut = True
        p.sent += sent

    def drain(self, p):
        while True:
            try:
                d = p.sock.recv(65536)
            except (BlockingIOError, InterruptedError):
                break
            except OSError:
                break
            if not d:
                break
            p.drained += len(d)
        _quickack(p.sock)

    def end_peer(self, p, abort, drain_first=False):
        if drain_first:
            self.drain(p)
        if p.sidx is None:
            if abort:
                p.aborted_unmatched = True
                self.classes.add('abort-before-accept')
        elif p.sidx not in self.disc:
            if self.buffered(p.sidx):
                self.classes.add('peer-ends-while-server-writing')
            if self.swritten.get(p.sidx, 0) > p.drained:
                # unread (or not yet transmitted) server data: close() is answered with / turns into a RST
                p.reset_possible = True
        if abort:
            p.aborted = True
            p.reset_possible = True
            self.classes.add('abort')
            try:
                p.sock.setsockopt(socket.SOL_SOCKET, socket.SO_LINGER, LINGER0)
            except OSError:
                pass
        p.sock.close()
        p.closed = True

    # -- whole history
    def run(self):
        spec = self.spec
        self.root = root = Manager()
        self.poller = self.P().register(root)
        opts = [(socket.SOL_SOCKET, socket.SO_SNDBUF, 4096)] if spec.get('sndbuf') else []
        self.addr = _loopback()
        self.srv = TCPServer((self.addr, 0), socket_options=opts).register(root)
        self.obs = SrvObs().register(root)
        self.obs.srv = self.srv
        self.settled = False
        try:
            for _ in range(20):
                if driver.quiescent(root):
                    break
                root.tick()
            self.port = self.srv.port
            self.listener = self.srv._sock
            try:
                for o in spec['ops']:
                    if len(o) == 4:          # the runner's structural shrinker may cut an op short
                        self.op(*o)
                # teardown, phase A: a close the application asked for must complete on its own while the
                # peer is still there and reading (deferred close waits for the buffer only)
                bound = SETTLE_BOUND + sum(p.sent for p in self.peers) // 2048 + sum(self.swritten.values()) // 1024
                pend = [p for p in self.live_peers() if p.sidx in self.sclosed and p.sidx not in self.disc]
                for _ in range(bound):
                    pend = [p for p in pend if p.sidx not in self.disc]
                    if not pend:
                        break
                    for p in pend:
                        self.drain(p)
                    self.it()
                for p in pend:
                    if self.buffered(p.sidx) and self.obs.socks[p.sidx] in self.poller._write:
                        # the kernel did not take the rest of the data within the bound: nothing can be concluded
                        self.inconclusive = True
                    elif self.close_ignored is None:
                        self.close_ignored = p.sidx
                # phase B: every peer goes away, then the loop runs until everything is accounted for
                for p in self.live_peers():
                    self.end_peer(p, abort=False)
                extra = None
                for _ in range(bound):
                    if extra is None and self.accounted():
                        extra = 4 + 3 * sum(1 for p in self.peers if p.aborted_unmatched and p.sidx is None)
                    if extra is not None:
                        if extra == 0:
                            self.settled = True
                            break
                        extra -= 1
                    self.it()
            except _Escaped:
                pass
            self.tables = self.snapshot()
        finally:
            self.cleanup()
        return self

    def accounted(self):
        if not driver.quiescent(self.root):
            return False
        for p in self.peers:
            if p.sidx is None:
                if not p.aborted_unmatched:
                    return False
            elif p.sidx not in self.disc:
                return False
        for kind, sidx, _ in self.obs.ev:
            if kind == 'connect' and sidx not in self.disc:
                return False
        return True

    def snapshot(self):
        srv, poller = self.srv, self.poller
        keep = (self.listener, poller._ctrl_recv)
        t = {
            'clients': len(srv._clients),
            'buffers': len(srv._buffers),
            'closeq': len(srv._closeq),
            'p_read': len([x for x in poller._read if x not in keep]),
            'p_write': len(poller._write),
            'p_targets': len([x for x in poller._targets if x is not self.listener]),
        }
        if hasattr(poller, '_map'):
            ok = {poller._ctrl_recv}
            try:
                ok.add(self.listener.fileno())
            except Exception:
                pass
            t['p_map'] = len([x for x in poller._map if x not in ok])
        t['listener_registered'] = self.listener in poller._read
        # sockets for which the server still holds data AND waits for the poller to report writability
        t['flushing'] = set(i for i, x in enumerate(self.obs.socks) if srv._buffers.get(x) and x in poller._write)
        return t

    def cleanup(self):
        for p in self.peers:
            try:
                p.sock.close()
            except OSError:
                pass
        try:
            for s in list(self.srv._clients):
                try:
                    s.close()
                except OSError:
                    pass
            for s in self.obs.socks:
                try:
                    if s is not None:
                        s.close()
                except OSError:
                    pass
            for s in (self.srv._sock, getattr(self, 'listener', None)):
                try:
                    if s is not None:
                        s.close()
                except OSError:
                    pass
        finally:
            _close_poller(self.poller)

    # -- judgement of one universe
    def judge(self):
        """Returns (clause, msg) or None."""
        tag = 'poller=%s' % self.pname
        if self.escaped:
            return 'exception-escaped', '%s exception left tick(): %s' % (tag, self.escaped)
        if self.close_ignored is not None:
            return 'close-not-honoured', '%s socket#%d: close(sock) was requested, the peer kept reading, but no disconnect within %d iterations' % (
                tag, self.close_ignored, SETTLE_BOUND)
        per = {}
        for kind, sidx, payload in self.obs.ev:
            per.setdefault(sidx, []).append((kind, payload))
        self.streams = {}
        stuck = set()
        for sidx in sorted(per):
            seq = per[sidx]
            kinds = [k for k, _ in seq]
            where = '%s socket#%d events=%s' % (tag, sidx, _abbr(kinds))
            if kinds[0] != 'connect':
                return 'event-without-connect', '%s: first event for a socket is %r, no connect was announced' % (where, kinds[0])
            if kinds.count('connect') > 1:
                return 'double-connect', where
            nd = kinds.count('disconnect')
            if nd > 1:
                return 'double-disconnect', where
            if nd == 1 and kinds[-1] != 'disconnect':
                after = seq[kinds.index('disconnect') + 1:]
                return 'event-after-disconnect', '%s: after the disconnect of the socket observers still saw %s' % (
                    where, ', '.join('%s(%s)' % (k, d if k == 'error' else '...') for k, d in after[:3]))
            if nd == 0:
                if sidx in self.tables['flushing']:
                    # The server still holds data for this socket that the kernel did not take within the bound
                    # (zero window / retransmission timers of a peer with a tiny receive buffer are wall-clock
                    # matters): its deferred close is legitimately pending, nothing can be concluded.
                    self.inconclusive = True
                    stuck.add(sidx)
                else:
                    return 'no-disconnect', '%s: peer is gone, loop quiescent/bounded (%d iterations) but no disconnect' % (where, self.iters)
            self.streams[sidx] = b''.join(d for k, d in seq if k == 'read')
        for p in self.peers:
            if p.sidx is None:
                if not p.aborted_unmatched:
                    return 'no-connect', '%s peer#%d connected (and was not reset before accept) but no connect was announced' % (tag, p.n)
                continue
            got = self.streams.get(p.sidx, b'')
            off = p.n * 4099
            want = STREAM[off:off + p.sent]
            if got != want[:len(got)]:
                k = 0
                while k < min(len(got), len(want)) and got[k] == want[k]:
                    k += 1
                return 'read-corrupt', '%s peer#%d: read data is not a prefix of what the peer sent (first difference at byte %d, got %d bytes, sent %d)' % (tag, p.n, k, len(got), p.sent)
            if self.must_be_complete(p) and p.sidx not in stuck and len(got) != len(want):
                return 'read-lost', '%s peer#%d: orderly closed connection delivered %d of %d bytes' % (tag, p.n, len(got), p.sent)
        if stuck:
            return None       # tables cannot be clean while a deferred close is pending
        if not self.settled:
            return 'no-quiescence', '%s loop not quiescent after %d iterations' % (tag, self.iters)
        t = self.tables
        if t['clients'] or t['buffers'] or t['closeq']:
            return 'server-residue', '%s after all disconnects: _clients=%d _buffers=%d _closeq=%d' % (tag, t['clients'], t['buffers'], t['closeq'])
        if t['p_read'] or t['p_write'] or t['p_targets'] or t.get('p_map'):
            return 'poller-residue', '%s after all disconnects: extra _read=%d _write=%d _targets=%d _map=%s' % (
                tag, t['p_read'], t['p_write'], t['p_targets'], t.get('p_map'))
        return None

    def must_be_complete(self, p):
        return not p.reset_possible and p.sidx not in self.sclosed


def _abbr(kinds):
    out = []
    for k in kinds:
        if out and out[-1][0] == k:
            out[-1][1] += 1
        else:
            out.append([k, 1])
    return ','.join(k if n == 1 else '%s*%d' % (k, n) for k, n in out)


# ------------------------------------------------------------------------------------------ client universe
class _ClientRun:
    def __init__(self, spec, pname, P):
        self.spec = spec
        self.pname = pname
        self.P = P
        self.classes = set()
        self.iters = 0
        self.escaped = None
        self.peer = None          # accepted harness-side socket of the current connection
        self.peer_open = False
        self.accepted = []
        self.late_done = False
        self.close_requested = -1     # number of the connection for which the application fired close
        self.close_ignored = False
        self.inconclusive = False

    def it(self, n=1):
        root = self.root
        for _ in range(n):
            try:
                root.fire(generate_events(root._lock, 0), '*')
                root.tick()
            except Exception as e:
                self.escaped = '%s: %s' % (type(e).__name__, str(e)[:120])
                raise _Escaped()
            self.iters += 1

    def outstanding(self):
        ev = self.obs.ev
        return ev.count('connected') - ev.count('disconnected')

    def accept(self):
        try:
            s, _ = self.lsock.accept()
        except OSError:
            return None
        s.setblocking(False)
        self.accepted.append(s)
        return s

    def wait(self, cond, bound=60):
        for _ in range(bound):
            if cond():
                return True
            self.it()
        return cond()

    def op(self, name, a, b, k):
        if name == 'connect':
            if self.outstanding() > 0 and not self.peer_open:
                self.wait(lambda: self.outstanding() <= 0)
            if self.outstanding() <= 0 and not self.peer_open:
                before = self.obs.ev.count('connected')
                self.root.fire(connect_ev(self.addr, self.port), 'client')
                self.wait(lambda: self.obs.ev.count('connected') > before)
                s = self.accept()
                if s is None and self.obs.ev.count('connected') > before:
                    for _ in range(50):          # the client says connected: the kernel must hand it over
                        self.it()
                        s = self.accept()
                        if s is not None:
                            break
                    else:
                        self.inconclusive = True
                if s is not None:
                    self.peer = s
                    self.peer_open = True
                    self.peer_sent = 0
                    self.classes.add('cycles>=2' if len(self.accepted) >= 2 else 'cycles>=1')
        elif name == 'psend':
            if self.peer_open:
                n = SEND_SIZES[b % len(SEND_SIZES)]
                try:
                    self.peer.send(STREAM[:n])
                except OSError:
                    pass
        elif name == 'pshut':
            if self.peer_open:
                try:
                    self.peer.shutdown(socket.SHUT_WR)
                except OSError:
                    pass
                self.classes.add('halfclose')
        elif name in ('pclose', 'pabort'):
            if self.peer_open:
                if name == 'pabort':
                    self.classes.add('abort')
                    try:
                        self.peer.setsockopt(socket.SOL_SOCKET, socket.SO_LINGER, LINGER0)
                    except OSError:
                        pass
                self.peer.close()
                self.peer_open = False
        elif name in ('cwrite', 'cwclose'):
            n = SWRITE_SIZES[b % len(SWRITE_SIZES)]
            if self.outstanding() > 0:
                self.root.fire(write_ev(SRV_DATA[:n]), 'client')
                if name == 'cwclose':            # "send this and hang up" in one go
                    self.classes.add('client-close')
                    self.close_requested = self.obs.ev.count('connected')
                    self.root.fire(close_ev(), 'client')
            elif self.obs.ev and b % 2 and name == 'cwrite':
                # late write to a client that reported disconnected
                self.classes.add('late-write')
                self.late_done = True
                self.root.fire(write_ev(SRV_DATA[:n]), 'client')
        elif name == 'cclose':
            if self.outstanding() > 0:
                self.classes.add('client-close')
                self.close_requested = self.obs.ev.count('connected')
            elif self.obs.ev:
                self.classes.add('late-close')
                self.late_done = True
            self.root.fire(close_ev(), 'client')
        self.it(k)

    def run(self):
        self.root = root = Manager()
        self.poller = self.P().register(root)
        self.lsock = socket.socket(socket.AF_INET, socket.SOCK_STREAM)
        try:
            self.addr = _loopback()
            self.lsock.bind((self.addr, 0))
            self.lsock.listen(8)
            self.lsock.setblocking(False)
            self.port = self.lsock.getsockname()[1]
            self.cli = TCPClient().register(root)
            self.obs = CliObs().register(root)
            for _ in range(20):
                if driver.quiescent(root):
                    break
                root.tick()
            self.settled = False
            try:
                for o in self.spec['ops']:
                    if len(o) == 4:
                        self.op(*o)
                if self.peer_open and self.outstanding() > 0 and self.close_requested == self.obs.ev.count('connected'):
                    # a close the application asked for completes on its own while the peer keeps reading
                    for _ in range(SETTLE_BOUND):
                        if self.outstanding() <= 0:
                            break
                        try:
                            while self.peer.recv(65536):
                                pass
                        except OSError:
                            pass
                        _quickack(self.peer)
                        self.it()
                    if self.outstanding() > 0:
                        if self.flushing():
                            self.inconclusive = True
                        else:
                            self.close_ignored = True
                if self.peer_open:
                    self.peer.close()
                    self.peer_open = False
                while True:                      # nothing may stay behind in the accept queue
                    s = self.accept()
                    if s is None:
                        break
                    s.close()
                extra = None
                for _ in range(SETTLE_BOUND):
                    if extra is None and self.outstanding() <= 0 and driver.quiescent(root):
                        extra = 4
                    if extra is not None:
                        if extra == 0:
                            self.settled = True
                            break
                        extra -= 1
                    self.it()
            except _Escaped:
                pass
            self.still_flushing = self.flushing()
        finally:
            self.cleanup()
        return self

    def flushing(self):
        """The client still holds data AND waits for the poller to report writability of its socket."""
        return bool(self.cli._buffer) and self.poller.isWriting(self.cli._sock)

    def cleanup(self):
        for s in self.accepted + [self.lsock]:
            try:
                s.close()
            except OSError:
                pass
        try:
            cli = getattr(self, 'cli', None)
            if cli is not None and cli._sock is not None:
                try:
                    cli._sock.close()
                except OSError:
                    pass
        finally:
            _close_poller(self.poller)

    def judge(self):
        tag = 'poller=%s client' % self.pname
        if self.escaped:
            return 'exception-escaped', '%s exception left tick(): %s' % (tag, self.escaped)
        ev = self.obs.ev
        if self.close_ignored:
            return 'close-not-honoured', '%s events=%s: close was requested, the peer kept reading, but no disconnected within %d iterations' % (
                tag, _abbr(ev), SETTLE_BOUND)
        bal = 0
        for i, e in enumerate(ev):
            bal += 1 if e == 'connected' else -1
            if bal < 0:
                return 'client-disconnected-twice', '%s events=%s: disconnected without a matching connected' % (tag, _abbr(ev))
            if bal > 1:
                return 'client-connected-twice', '%s events=%s' % (tag, _abbr(ev))
        if bal != 0 and self.still_flushing:
            self.inconclusive = True      # deferred close still waiting for the kernel to take the data
            return None
        if bal != 0:
            return 'client-no-disconnected', '%s events=%s: peer gone, %d iterations, connected without disconnected' % (tag, _abbr(ev), self.iters)
        if not self.settled:
            return 'no-quiescence', '%s loop not quiescent after %d iterations' % (tag, self.iters)
        return None


# ------------------------------------------------------------------------------------------------ property
class C12(Prop):
    id = 'C12'
    rule = ('histories of <=4 concurrent loopback peers against a real TCPServer (connect [awaited or not], send n, '
            'shutdown(WR), close [with/without draining], abort via SO_LINGER 0, slow reader with small SO_RCVBUF, drain) '
            'interleaved with server-side write/close and LATE write/close to sockets whose disconnect was already '
            'observed, close(sock) fired behind the iteration\'s poll, and "hangup": the peer sends 100..60000 bytes at once '
            'and the application fires [write+]close(sock) from its handler of the next read event (close processed with '
            'several x bufsize still unread and a further _read queued; class close-in-read-handler:backlog>2xbufsize), '
            '0-3 zero-time-out loop iterations after each op; every history is executed under Select, Poll and '
            'EPoll; 2 in 7 cases are TCPClient histories (connect/peer send/half-close/close/abort/client write/close/'
            'write+close/late write/close, reconnects). non-trivial = the history executed an abort or half-close AND a late write/close actually '
            'addressed to an already disconnected socket; distinct = distinct spec hash')
    assumptions = ('Linux loopback TCP: delivery of data/FIN/RST happens inside the sending system call; the interpreter '
                   'nevertheless only waits on conditions (bounded iteration counts), never on time',
                   'chunking of reads, error events BEFORE the disconnect of a socket (number, errno) and which prefix of the '
                   'data is delivered before a reset are not asserted; any read/error/disconnect naming a socket after its '
                   'disconnect is a violation; error events for sockets that were never announced are ignored',
                   'a connection reset by the peer before the server could accept it need not be announced at all',
                   'a deferred close whose data the kernel does not take within the iteration bound is inconclusive')
    budget = {'quick': (1500, 4), 'thorough': (60000, 16)}

    def setup(self):
        driver.quiet_process()

    def strategy(self, tier):
        nmax = 22 if tier == 'quick' else 40
        sop = st.tuples(st.sampled_from(SERVER_OPS), st.integers(0, 7), st.integers(0, 7),
                        st.sampled_from([0, 0, 1, 1, 1, 2, 3])).map(list)
        cop = st.tuples(st.sampled_from(CLIENT_OPS), st.integers(0, 7), st.integers(0, 7),
                        st.sampled_from([0, 0, 1, 1, 1, 2, 3])).map(list)
        server = st.fixed_dictionaries({'mode': st.just('server'), 'sndbuf': st.sampled_from([0, 1, 1]),
                                        'ops': st.lists(sop, min_size=1, max_size=nmax)})
        client = st.fixed_dictionaries({'mode': st.just('client'), 'ops': st.lists(cop, min_size=1, max_size=nmax)})
        return st.integers(0, 6).flatmap(lambda i: client if i >= 5 else server)

    def execute(self, spec):
        mode = spec.get('mode', 'server')
        runs = []
        with driver.captured_stderr():
            for pname, P in POLLERS:
                r = (_ServerRun if mode == 'server' else _ClientRun)(spec, pname, P)
                r.run()
                runs.append(r)
        classes = set(['mode:' + mode])
        for r in runs:
            classes |= r.classes
            if r.obs.errors:
                classes.add('error-event')
            if mode == 'server':
                if any(k == 'error' for k, _, _ in r.obs.ev):
                    classes.add('error-event-names-announced-socket')
                if r.obs.unannounced_errors:
                    classes.add('error-event-for-unannounced-socket')
                for name in sorted(r.obs.stale):
                    classes.add('stale-%s-after-close' % name)
            if r.obs.excs:
                classes.add('exception-event')
        verdicts = [r.judge() for r in runs]
        for r, v in zip(runs, verdicts):
            if v is not None:
                return Result(False, v[0], v[1], classes=sorted(classes))
        hard = 'abort' in classes or 'halfclose' in classes
        late = all(r.late_done for r in runs)
        if any(r.inconclusive for r in runs):
            classes.add('inconclusive:kernel-kept-data-unsent')
            return Result(True, nontrivial=False, classes=sorted(classes), inconclusive=True)
        return Result(True, nontrivial=bool(hard and late), classes=sorted(classes))


PROP = C12()
