"""C19 — circuits.node: remote events run once and return their result; peers cannot harm the loop.

Spec (plain JSON):
  {"clients": 1|2,
   "fw": {"B": {"send": [names], "recv": [names], "always": bool}, "A0": {...}, "A1": {...}},   deny lists
   "cuts": {"sizes": [int, ...], "burst": int},        read sizes used cyclically (<= 4096), reads per stream per round (0 = all)
   "waves": [{"sends": [EVENT, ...], "forged": [FORGED, ...]}, ...]}
  EVENT  = {"src": "A0"|"A1"|"B", "to": int, "how": "call"|"fire"|"client"|"server"|"server_nores",
            "name", "args", "kwargs", "channels": [..] | null, "flags": [success, failure, notify], "meta": {attr: json},
            "kind": "plain"|"slow"|"none"|"raise"|"mixed"|"mixed2", "slow": n, "tamper_call": {key: v}, "tamper_value": {key: v}}
            (mixed: handler t0 is a coroutine and t1 raises; mixed2: t0 raises and t1 is a coroutine)
  FORGED = {"victim": "B"|"A0", "when": "before"|"after", "chase": bool (a benign call follows in the same stream), "raw": latin-1 text of the packet (trailing '~' stripped, delimiter appended)}
The uid of an event is UID0+100*wave+index and travels as first positional argument.
A forged call packet that names a real event is dispatched to the same application handlers; what they answer is
picked by its first argument (vlib.c19_helpers.forged_kind: a value, a coroutine, None or an exception).
"""
import json
import os
import re
import shutil
import subprocess
import sys
import tempfile

from hypothesis import strategies as st

from circuits import Event
from circuits.core import Value
from circuits.node import remote
from circuits.node.utils import dump_event, dump_value, load_event, load_value
from vlib import c19_helpers as H
from vlib import driver
from vlib.runner import Prop, Result

NAMES = list(H.NAMES)
ABSENT = '<absent>'
FOLLOW_ID = 731009077
UID0 = 731000000   # uids are UID0 + 100*wave + index: a forged packet does not contain such a number by accident
# hostile values that no event attribute legitimately has (True/None/0/'c0' could be the genuine value)
# ({'hx': 1}: 'hx' is not a keyword the generator uses, so it never is the genuine kwargs of an event)
DISTINCT = ['HX', 666, ['HX'], {'hx': 1}, [['c0']], -1, 2.5]
SENT = ['HX', 666, ['HX'], {'hx': 1}, 0, 1, '', None, True, 'c0', ['c0'], [['c0']], -1, 2.5]
# attribute names the dispatcher (circuits/core/manager.py) and the node protocol read from an event
PROTECTED = ['name', 'args', 'kwargs', 'channels', 'value', 'handler', 'stopped', 'cancelled', 'complete', 'success',
             'failure', 'alert_done', 'waitingHandlers', 'parent', 'notify', 'cause', 'effects', 'success_channels',
             'complete_channels', 'uid', 'node_call_id', 'node_sock']


def _dispatcher_attributes():
    """Names of the event attributes circuits/core/manager.py reads or writes (``event.x``, ``getattr(event, 'x')``):
    "the event attributes the dispatcher relies on", also those that only exist while an event is under way."""
    import inspect
    import circuits.core.manager as m
    try:
        src = inspect.getsource(m)
    except (OSError, TypeError):
        return []
    names = set(re.findall(r"\bevent\.([A-Za-z_]\w*)\b(?!\()", src)) | set(re.findall(r"[gs]etattr\(event, '(\w+)'", src))   # not method calls
    probe = Event()
    return sorted(n for n in names if not callable(getattr(probe, n, None)) and not n.startswith('__'))


PROTECTED += [n for n in dict.fromkeys(['_failed'] + _dispatcher_attributes()) if n not in PROTECTED]
HOSTILE_KEYS = PROTECTED + ['child', 'create', 'stop', 'cancel', 'node_without_result', 'node_protocol', 'failure_channels',
                            '__class__', '__dict__', '__init__', '_Event__x', 'lock', 'task', 'x_meta', '', 'remote_finish']
CUSTOM_META = ['x_meta', '_priv', 'trace']
SPECIAL_TEXT = ['~~~', 'a~~~b', '~~~~', 'x~~~~~~y', '~', '~~', '"value":', '{"value": 1}', '\\', '\\u007e', 'name', '"', "'", '\n', '\x00', '€', '\U0001f600', '}~~~{']
SPECIAL_KEYS = ['value', 'name', 'id', 'meta', 'channels', 'args', 'a', 'b', 'k1', 'a b', '~~~', '']
KW_KEYS = ['a', 'b', 'c', 'd', 'e', 'f', 'g', 'h', 'i', 'j', 'value', 'name', 'id', 'meta', 'cls', '_name', 'channels', 'args', 'kwargs', 'x y', 'k~~~']
FORGED_KW_KEYS = KW_KEYS + ['self', 'event']
# values of the feedback fields of a call packet (success, failure, notify, ...) that are not booleans: texts (also
# texts that cannot be the name of a type: NUL, lone surrogate), numbers, containers
ODD_FLAGS = ['x', 'value_is_there', 'ping', '', 'a b', 'value\x00changed', '\x00', '\ud800', 'x\udfff', 'é€\U0001f600', 'n' * 300,
             1, 0, -1, 2.5, None, ['x'], [], {'a': 1}]
FLAG_FIELDS = ['notify', 'notify', 'notify', 'success', 'failure', 'complete', 'alert_done', 'stopped', 'cancelled', 'waitingHandlers']
BAD_IDS = [-1, -7, 10 ** 9, 'x', '0', None, [], {}, 0.5, [1], {'a': 1}]


# ---------------------------------------------------------------------------------------------- strategies
def _text():
    return st.one_of(st.text(max_size=12), st.sampled_from(SPECIAL_TEXT),
                     st.text(alphabet='ab~"\\:{}é', max_size=10))


def _json(depth=2):
    leaf = st.one_of(st.none(), st.booleans(), st.integers(-2 ** 70, 2 ** 70), st.integers(-3, 3),
                     st.floats(allow_nan=False, allow_infinity=False), _text())
    s = leaf
    for _ in range(depth):
        s = st.one_of(leaf, st.lists(s, max_size=3), st.dictionaries(st.one_of(st.sampled_from(SPECIAL_KEYS), st.text(max_size=5)), s, max_size=3))
    return s


def _finish_event(d, clients):
    """Resolve the drawn fields against the topology (constructive: indices modulo what exists)."""
    src = d['src'] if d['src'] == 'B' or int(d['src'][1:]) < clients else 'A0'
    ev = dict(d, src=src)
    if src == 'B':
        ev['how'] = 'server' if d['hw'] < 5 else 'server_nores'
        ev['to'] = d['to'] % clients
        ev['channels'] = d['chs']
    else:
        ev['how'] = ['call', 'fire', 'client'][d['hw'] % 3]
        ev['to'] = 0
        if ev['how'] == 'client':
            ev['channels'] = d['chs']
        else:
            ev['channels'] = None if not d['chs'] else d['chs'][:1]
    if d['bigarg']:
        ev['args'] = list(d['args']) + [{'big': d['bigarg']}]
    for k in ('hw', 'chs', 'bigarg'):
        ev.pop(k)
    return ev


def _event(tier):
    big = st.one_of(st.just(0), st.just(0), st.just(0), st.sampled_from([3990, 4090, 4096, 4200, 8192, 12400]),
                    st.integers(3900, 12500 if tier == 'quick' else 20000))

    tam = st.dictionaries(st.sampled_from(HOSTILE_KEYS), st.sampled_from(SENT), max_size=3)
    return st.fixed_dictionaries({
        'src': st.sampled_from(['A0', 'A0', 'A1', 'B']),
        'to': st.integers(0, 1),
        'hw': st.integers(0, 5),
        'name': st.sampled_from(NAMES),
        'args': st.lists(_json(), max_size=3),
        'kwargs': st.dictionaries(st.sampled_from(KW_KEYS), _json(1), max_size=3),
        'chs': st.sampled_from([['c0'], ['c0'], ['c1'], ['c0', 'c1'], ['c1', 'c0'], ['*'], []]),
        'flags': st.lists(st.booleans(), min_size=3, max_size=3),
        'meta': st.dictionaries(st.sampled_from(CUSTOM_META), _json(1), max_size=2),
        'kind': st.sampled_from(['plain', 'plain', 'plain', 'slow', 'none', 'raise', 'mixed', 'mixed2', 'slowraise']),
        'slow': st.integers(1, 3),
        'bigarg': big,
        'tamper_call': st.one_of(st.just({}), st.just({}), tam),
        'tamper_value': st.one_of(st.just({}), st.just({}), tam),
    })


def _forged_raw():
    """A hostile packet: a well-formed call/value packet put through 0-3 mutations, or plain junk."""
    flag, odd = st.booleans(), st.sampled_from(ODD_FLAGS)
    call = st.fixed_dictionaries({
        'id': st.sampled_from(BAD_IDS), 'name': st.sampled_from(NAMES + NAMES + ['nobody', '']),
        'args': st.lists(st.one_of(st.integers(-50, -1), _json(1)), max_size=3), 'kwargs': st.dictionaries(st.sampled_from(FORGED_KW_KEYS), _json(1), max_size=2),
        'success': st.one_of(flag, flag, flag, odd), 'failure': st.one_of(flag, flag, flag, odd), 'notify': st.one_of(flag, flag, odd),
        'channels': st.sampled_from([['c0'], ['c0'], ['c1'], ['*'], ['c0', 'c1'], []]),
        'meta': st.dictionaries(st.sampled_from(HOSTILE_KEYS), st.sampled_from(SENT), max_size=3)})
    value = st.fixed_dictionaries({
        'id': st.sampled_from(BAD_IDS), 'value': _json(1), 'errors': st.sampled_from([False, True, 'x', None, [1]]),
        'meta': st.dictionaries(st.sampled_from(HOSTILE_KEYS), st.sampled_from(SENT), max_size=3)})
    wrong = st.sampled_from([None, 5, -1, 'abc', '', [], ['c0'], [['c0']], [{'a': 1}], {}, {'a': 1}, {'1': [2]}, True, 1.5, [None], [1, 'c0'], 'c0',
                             {'cause': 1}, {'cause': 1, 'effects': 'x'}, [[1, 2]], [[None, 'x']], [['k', 1], [2, 3]], [[1.5, None]]])
    mutation = st.one_of(
        st.tuples(st.just('set'), st.sampled_from(['id', 'name', 'args', 'kwargs', 'success', 'failure', 'notify', 'channels', 'meta', 'value', 'errors', 'extra']), wrong),
        st.tuples(st.just('del'), st.sampled_from(['id', 'name', 'args', 'kwargs', 'success', 'failure', 'notify', 'channels', 'meta', 'value', 'errors']), st.none()),
        st.tuples(st.just('set'), st.just('channels'), st.sampled_from([[['c0']], [{'a': 1}], [None], [1], 'c0', {'c0': 1}, [[]], ['c0', ['c1']], [[['c0']]], [True], 7, None])),
        st.tuples(st.just('set'), st.just('meta'), st.sampled_from([[[1, 2]], [[None, 'x']], [['k', 1], [2, 3]], [[True, 0]], [[0.5, 'HX']], None, [], 'ab', 5, [['ab', 1]]])),
        st.tuples(st.just('set'), st.just('meta'), st.dictionaries(st.sampled_from(['cause', 'effects', 'complete_channels', 'success_channels', 'node_protocol', 'value', 'stopped']), st.sampled_from(SENT), min_size=1, max_size=3)),
        st.tuples(st.just('set'), st.sampled_from(FLAG_FIELDS), odd),
        st.tuples(st.just('trunc'), st.integers(0, 400), st.none()),
        st.tuples(st.just('wrap'), st.sampled_from(['list', 'str', 'num', 'null', 'nest']), st.none()),
        st.tuples(st.just('append'), st.sampled_from(['}', ']', ' ', '{}', '\xff', '\xc3', '\x00', 'null', ',']), st.none()),
        st.tuples(st.just('pad'), st.sampled_from([4000, 4096, 5000, 9000, 20000]), st.none()),
    )
    junk = st.sampled_from(['', '{', '[', '[]', '{}', 'null', '0', '"x"', '\xff\xfe', '\xc3', '{"id": 1', '{"value": ', '{"name": "ping"}',
                            '{"id": 0, "value": 1}', '~', '~~', 'A' * 9000, '[' * 3000, '{"a":' * 2000, '\x00' * 10])

    def render(t):
        pkt, muts = t
        pkt = dict(pkt)
        text = None
        top = pkt
        for kind, a, b in muts:
            if text is not None:
                break
            if kind == 'set':
                pkt[a] = b
            elif kind == 'del':
                pkt.pop(a, None)
            elif kind == 'pad':
                pkt['pad'] = 'P' * a
            elif kind == 'wrap':
                top = {'list': [pkt], 'str': json.dumps(pkt), 'num': 5, 'null': None, 'nest': {'name': pkt}}[a]
            elif kind == 'trunc':
                text = json.dumps(top)[:a]
            elif kind == 'append':
                text = json.dumps(top) + a
        if text is None:
            text = json.dumps(top)
        return text

    return st.one_of(st.tuples(st.one_of(call, value), st.lists(mutation, max_size=3)).map(render), junk)


def _forged():
    return st.fixed_dictionaries({'victim': st.sampled_from(['B', 'B', 'A0']), 'when': st.sampled_from(['before', 'after']),
                                  'raw': _forged_raw(), 'chase': st.sampled_from([True, True, True, False])})


def _spec(tier):
    wave = st.fixed_dictionaries({
        'sends': st.lists(_event(tier), min_size=0, max_size=4),
        'forged': st.one_of(st.just([]), st.lists(_forged(), min_size=1, max_size=3))})
    fw = st.fixed_dictionaries({'send': st.lists(st.sampled_from(NAMES), max_size=2, unique=True),
                                'recv': st.lists(st.sampled_from(NAMES), max_size=2, unique=True),
                                'raise': st.one_of(st.just([]), st.just([]), st.lists(st.sampled_from(NAMES), min_size=1, max_size=1)),
                                'how': st.sampled_from([0, 0, 1, 2, 3, 4]),
                                'always': st.booleans()})
    fws = st.one_of(st.just({}), st.dictionaries(st.sampled_from(['B', 'A0', 'A1']), fw, max_size=3))
    sizes = st.lists(st.one_of(st.integers(1, 40), st.integers(1, 4096), st.sampled_from([1, 2, 3, 4095, 4096, 4096, 4096])), min_size=1, max_size=6)

    def finish(d):
        c = d['clients']
        for f in d['fw'].values():
            if len(set(f['recv']) | set(f.get('raise', ()))) >= len(NAMES):
                f['raise'] = []        # some name always gets through
        return dict(d, waves=[dict(w, sends=[_finish_event(e, c) for e in w['sends']]) for w in d['waves']])

    return st.fixed_dictionaries({
        'clients': st.integers(1, 2), 'fw': fws,
        'cuts': st.fixed_dictionaries({'sizes': sizes, 'burst': st.sampled_from([0, 0, 1, 2, 5])}),
        'waves': st.lists(wave, min_size=1, max_size=3)}).map(finish)


# ---------------------------------------------------------------------------------------------- comparison
def same(a, b):
    """Structural equality as JSON sees it (bool is not int, tuple == list)."""
    if isinstance(a, (list, tuple)) and isinstance(b, (list, tuple)):
        return len(a) == len(b) and all(same(x, y) for x, y in zip(a, b))
    if isinstance(a, dict) and isinstance(b, dict):
        return set(a) == set(b) and all(same(a[k], b[k]) for k in a)
    if isinstance(a, bool) or isinstance(b, bool):
        return isinstance(a, bool) and isinstance(b, bool) and a == b
    if isinstance(a, (int, float)) and isinstance(b, (int, float)):
        return type(a) is type(b) and a == b
    return type(a) is type(b) and a == b


def _args(sc, uid):
    out = [uid]
    for a in sc['args']:
        if isinstance(a, dict) and set(a) == {'big'} and isinstance(a['big'], int):
            out.append('B' * a['big'])
        else:
            out.append(a)
    return out


class _SerialiserError(Exception):
    pass


def _mk(name, args, kwargs):
    """An event class of that name, as ``class ping(Event)`` would define it (Event.create cannot take every keyword)."""
    return type(name, (Event,), {})(*args, **kwargs)


def _short(x, n=160):
    s = repr(x)
    return s if len(s) <= n else s[:n] + '...(%d chars)' % len(s)


class C19(Prop):
    id = 'C19'
    rule = ('histories of 1-3 waves of 0-4 simultaneous remote events between a real node Server (1-2 connections, optional extra '
            'hostile connection) and real node Clients wired without sockets; JSON args/kwargs incl. >4 KiB, delimiter and '
            '"value": texts, enumerated events of 70 kB..1.1 MB (thorough 4.3 MB); name-based send/receive firewalls incl. receive predicates that raise; a process holding two connections (results must go to the connection their call arrived on); packet streams cut into reads of generated sizes (<=4096); forged '
            'hostile packets (mutated call/value packets incl. non-boolean feedback fields, junk, oversized; forged calls are '
            'answered by handlers returning a value/coroutine/None/raising) and hostile metadata (every attribute name the '
            'dispatcher source mentions) added to genuine packets in transit; handler kinds incl. one raising next to a '
            'suspended coroutine; enumerated: every cut offset of one call, every hostile metadata key, every odd feedback '
            'value; non-trivial = a read boundary fell strictly inside a packet, or >=2 events of one wave were in flight, or a '
            'hostile packet (forged, or a genuine one with hostile metadata added) parsed as JSON; distinct = distinct spec hash')
    assumptions = ('transport replaced by recording components (circuits.node.client.TCPClient / circuits.node.server.TCPServer '
                   'module globals); all simulated processes live in one interpreter',
                   'a hostile peer may answer its own connection arbitrarily: forged value packets use ids that are never allocated',
                   'hostile packets are delimiter-terminated; an unterminated hostile packet legitimately garbles what follows on that connection',
                   'result order of several coroutine handlers of one event is not asserted',
                   'Manager._tasks of the simulated processes is an insertion-ordered double of the set (determinism of replays)')
    budget = {'quick': (400, 4), 'thorough': (12000, 16)}

    def setup(self):
        driver.quiet_process()
        H.install()
        # every case builds and drops ~20 components (cyclic garbage): keep the collector from re-scanning the large
        # heap inherited from the runner (hypothesis, ...) - measured 10x on the forked shard/enumeration workers
        import gc
        gc.collect()
        gc.freeze()
        # same limit in every context (the runner raises it in its shard workers only): deeply nested hostile JSON must
        # take the same path (ValueError, not RecursionError) in a shard, in the enumeration pool and under --replay
        sys.setrecursionlimit(10000)

    def strategy(self, tier):
        return _spec(tier)

    def enumerate(self, tier):
        """Finite sub-domain: one small call and its answer, the stream cut once at every offset (both directions)."""
        def ev(src, how, **kw):
            d = {'src': src, 'to': 0, 'how': how, 'name': 'ping', 'args': ['x~y', {'value': 1}], 'kwargs': {'k': [1, None]},
                 'channels': ['c0'], 'flags': [False, False, False], 'meta': {}, 'kind': 'plain', 'slow': 1,
                 'tamper_call': {}, 'tamper_value': {}}
            d.update(kw)
            return d
        out = []
        for src, how in (('A0', 'client'), ('B', 'server')):
            for i in range(1, 330 if tier == 'quick' else 700):
                out.append({'clients': 1, 'fw': {}, 'cuts': {'sizes': [i, 4096], 'burst': 0},
                            'waves': [{'sends': [ev(src, how)], 'forged': []}]})
        one = {'sizes': [4096], 'burst': 0}
        # "args of any size": a few far larger than the read buffer (the packet arrives in hundreds of full reads)
        for src, how in (('A0', 'client'), ('B', 'server')):
            for n in ((70000, 1100000) if tier == 'quick' else (70000, 300000, 1100000, 2200000, 4300000)):
                out.append({'clients': 1, 'fw': {}, 'cuts': one,
                            'waves': [{'sends': [ev(src, how, args=['x', {'big': n}])], 'forged': []}]})
        # every metadata key x two hostile values, added in transit to a genuine call / to its answer, plain and coroutine handler
        for key in HOSTILE_KEYS:
            for val in ('HX', 666):
                for kind in ('plain', 'slow'):
                    for where in ('tamper_call', 'tamper_value'):
                        out.append({'clients': 1, 'fw': {}, 'cuts': one,
                                    'waves': [{'sends': [ev('A0', 'client', kind=kind, **{where: {key: val}})], 'forged': []}]})
        # one handler raises while another one of the same remote event is a suspended coroutine
        for src, how in (('A0', 'client'), ('A0', 'call'), ('B', 'server')):
            for kind in ('mixed', 'mixed2'):
                for chs in (['c0', 'c1'], ['*'], ['c1']):
                    out.append({'clients': 1, 'fw': {}, 'cuts': one,
                                'waves': [{'sends': [ev(src, how, kind=kind, channels=chs)], 'forged': []}]})
        # well-formed forged call whose feedback fields are not booleans, handled by a handler that returns a value /
        # a coroutine / raises, chased by a benign call in the same read
        for victim in ('B', 'A0'):
            for fld in ('notify', 'success', 'failure'):
                for val in ODD_FLAGS:
                    for first in (-1, -2, -3):
                        pkt = {'id': -1, 'name': 'ping', 'args': [first, 'x'], 'kwargs': {}, 'success': False, 'failure': False,
                               'notify': False, 'channels': ['c0'], 'meta': {}}
                        pkt[fld] = val
                        out.append({'clients': 1, 'fw': {}, 'cuts': one, 'waves': [{'sends': [], 'forged': [
                            {'victim': victim, 'when': 'before', 'chase': True, 'raw': json.dumps(pkt)}]}]})
        # a process with two connections: B calls A0 while A0 also holds a connection to another (hostile) server
        for kind in ('plain', 'slow', 'raise', 'slowraise'):
            for when in ('before', 'after'):
                out.append({'clients': 1, 'fw': {}, 'cuts': one, 'waves': [{
                    'sends': [ev('B', 'server', kind=kind), ev('A0', 'client', kind=kind)],
                    'forged': [{'victim': 'A0', 'when': when, 'chase': True, 'raw': json.dumps(
                        {'id': 0, 'name': 'job', 'args': [-7, 'x'], 'kwargs': {}, 'success': False, 'failure': False, 'notify': False,
                         'channels': ['c1'], 'meta': {}})}]}]})
                out.append({'clients': 1, 'fw': {}, 'cuts': one, 'waves': [{
                    'sends': [ev('B', 'server', kind=kind)],
                    'forged': [{'victim': 'A0', 'when': when, 'chase': False, 'raw': '{"junk": 1}'}]}]})
        if tier == 'thorough' and not os.environ.get('C19_NO_FUZZ'):
            out += self.campaign()
        return out

    # ------------------------------------------------------------------ thorough: atheris campaign on hostile bytes
    FUZZ_PROCS = 8
    FUZZ_RUNS = 20000

    def campaign(self):
        """Coverage-guided hostile byte streams (vlib/c19_helpers.py: bytes -> spec, this module's oracle in the target).
        A failing spec is handed to the runner as an enumerated case (-> VIOLATION + replay file)."""
        from vlib import runner
        verif = runner.VERIF
        if not os.path.isdir(os.path.join(verif, '.deps', 'atheris')):
            self.rule += ' | atheris campaign skipped: atheris not installed in .deps'
            return []
        seed = int(os.environ.get('VERIF_SEED', '1') or 1)
        top = tempfile.mkdtemp(prefix='c19-fuzz-')
        env = dict(os.environ, PYTHONHASHSEED='0',
                   PYTHONPATH=os.pathsep.join([runner.REPO, verif, os.path.join(verif, '.deps')]))
        procs = []
        failing, notes, covs, runs = [], [], [], 0
        try:
            for k in range(self.FUZZ_PROCS):
                d = os.path.join(top, 'p%d' % k)
                os.makedirs(d)
                log = open(os.path.join(d, 'log'), 'w')
                procs.append((d, log, subprocess.Popen(
                    [sys.executable, '-m', 'vlib.c19_helpers', '--out', d, '--corpus', os.path.join(verif, 'corpus', 'C19'),
                     '-runs=%d' % self.FUZZ_RUNS, '-seed=%d' % (seed * 1000 + k)],
                    cwd=verif, env=env, stdout=subprocess.DEVNULL, stderr=log)))
            for d, log, p in procs:
                try:
                    rc = p.wait(timeout=3600)
                except subprocess.TimeoutExpired:
                    p.kill()
                    p.wait()
                    rc = None
                log.close()
                text = open(os.path.join(d, 'log'), errors='replace').read()
                if rc == 1 and os.path.exists(os.path.join(d, 'C19-fuzz.json')):
                    with open(os.path.join(d, 'C19-fuzz.json')) as f:
                        failing.append(json.load(f))
                elif rc == 0:
                    m = re.findall(r'cov: (\d+)', text)
                    if m:
                        covs.append(int(m[-1]))
                    m = re.search(r'number_of_executed_units: (\d+)', text)
                    runs += int(m.group(1)) if m else 0
                else:
                    notes.append('campaign %s ended rc=%r: %s' % (os.path.basename(d), rc, text[-200:].replace('\n', ' ')))
        finally:
            for d, log, p in procs:
                if p.poll() is None:
                    p.kill()
            shutil.rmtree(top, ignore_errors=True)
        self.rule += (' | thorough tier additionally ran %d atheris campaigns on hostile byte streams (seeds %d..%d, same oracle): '
                      '%d executions, edge coverage of circuits/node/{protocol,utils}.py %s, %d violations%s' % (
                          self.FUZZ_PROCS, seed * 1000, seed * 1000 + self.FUZZ_PROCS - 1, runs,
                          ('%d-%d' % (min(covs), max(covs))) if covs else 'n/a', len(failing),
                          ('; ' + '; '.join(notes)) if notes else ''))
        seen, out = set(), []
        for f in failing:
            if f['clause'] not in seen:
                seen.add(f['clause'])
                out.append(f['spec'])
        return out

    def exclude(self, spec, triggers):
        return spec, 0

    def normalize(self, spec):
        """The runner's structural shrinker deletes list elements; restore fixed-length fields."""
        spec['cuts']['sizes'] = spec['cuts']['sizes'] or [4096]
        for w in spec['waves']:
            for e in w['sends']:
                e['flags'] = (list(e['flags']) + [False, False, False])[:3]
        return spec

    # ------------------------------------------------------------------ round trip of the serialisers (pure)
    def _roundtrip(self, sc, uid):
        e = _mk(sc['name'], _args(sc, uid), sc['kwargs'])
        e.success, e.failure, e.notify = sc['flags']
        chans = sc['channels'] or []
        e.channels = tuple(chans)
        for k, v in sc['meta'].items():
            setattr(e, k, v)
        try:
            e2, id2 = load_event(dump_event(e, uid))
        except Exception as exc:  # noqa
            return 'load_event(dump_event(e)) raised %s: %s' % (type(exc).__name__, str(exc)[:120])
        if id2 != uid:
            return 'id %r became %r' % (uid, id2)
        if e2.name != e.name:
            return 'name %r became %r' % (e.name, e2.name)
        if not same(e2.args, e.args):
            return 'args %s became %s' % (_short(e.args), _short(e2.args))
        if not same(e2.kwargs, e.kwargs):
            return 'kwargs %s became %s' % (_short(e.kwargs), _short(e2.kwargs))
        if not isinstance(e2.channels, tuple) or tuple(e2.channels) != tuple(chans):
            return 'channels %r became %r' % (tuple(chans), e2.channels)
        if [e2.success, e2.failure, e2.notify] != list(sc['flags']):
            return 'feedback flags %r became %r' % (sc['flags'], [e2.success, e2.failure, e2.notify])
        for k, v in sc['meta'].items():
            if not same(getattr(e2, k, ABSENT), v):
                return 'custom attribute %s=%s became %s' % (k, _short(v), _short(getattr(e2, k, ABSENT)))
        # value
        v = Value(e, None)
        v._value = {'r': uid, 'a': _args(sc, uid)[1:], 'k': sc['kwargs']}
        v.errors = sc['flags'][0]
        v.node_call_id = uid
        try:
            val, vid, err, meta = load_value(dump_value(v))
        except Exception as exc:  # noqa
            return 'load_value(dump_value(v)) raised %s: %s' % (type(exc).__name__, str(exc)[:120])
        if vid != uid or bool(err) != bool(v.errors) or not same(val, v._value):
            return 'value (%s, id %r, errors %r) became (%s, %r, %r)' % (_short(v._value), uid, v.errors, _short(val), vid, err)
        for k, x in sc['meta'].items():
            if not same(meta.get(k, ABSENT), x):
                return 'value meta %s=%s became %s' % (k, _short(x), _short(meta.get(k, ABSENT)))
        return None

    # ------------------------------------------------------------------ execution
    def execute(self, spec):
        with driver.captured_stderr():
            return self._execute(spec)

    def _execute(self, spec):
        clients = spec['clients']
        # the harness tells genuine events apart by the number UID0+k in their first argument: a forged packet must not
        # carry such a number (the generator or shrinker can arrive at it) - rewritten to another number of the same length
        waves = [dict(w, forged=[dict(f, raw=f['raw'].replace('7310', '1310')) for f in w['forged']]) for w in spec['waves']]
        spec = dict(spec, waves=waves)
        scripts = {}
        for wi, w in enumerate(waves):
            for ei, sc in enumerate(w['sends']):
                scripts[UID0 + 100 * wi + ei] = sc
        for uid, sc in scripts.items():
            msg = self._roundtrip(sc, uid)
            if msg:
                return Result(False, 'serialisation-roundtrip', 'event %d: %s' % (uid, msg))

        forged = [f for w in waves for f in w['forged']]
        hostile_b = any(f['victim'] == 'B' for f in forged)
        hostile_a = any(f['victim'] == 'A0' for f in forged)
        rig = H.Rig(clients, spec['fw'], scripts, hostile_server=hostile_b, hostile_client=hostile_a)
        try:
            return self._drive(spec, rig, scripts, forged, hostile_b, hostile_a)
        except _SerialiserError as exc:
            return Result(False, 'serialisation-roundtrip', str(exc))
        finally:
            rig.close()

    def _drive(self, spec, rig, scripts, forged, hostile_b, hostile_a):
        sizes, burst = spec['cuts']['sizes'] or [4096], spec['cuts']['burst']
        events = {}
        fired = {}
        complete = True

        follow = []   # (link label, victim, uid, call id, kind of follow-up)

        def benign(label, proc, kind):
            """A well-formed call from the hostile peer: must be served like any other remote event."""
            n = len(follow)
            uid, cid = UID0 + 9000 + n, FOLLOW_ID + n
            # the firewalls deny at most two of the three names
            nm = [x for x in NAMES if x not in spec['fw'].get(proc, {}).get('recv', ()) and x not in spec['fw'].get(proc, {}).get('raise', ())][0]
            e = Event.create(nm, uid, 'after-hostile')
            e.channels = ('c0',)
            scripts[uid] = {'kind': 'plain', 'meta': {}, 'tamper_call': {}}
            try:
                pkt = dump_event(e, cid).encode('utf-8')
            except Exception as exc:  # noqa - the serialiser is code under test
                raise _SerialiserError('dump_event(%s(%d, "after-hostile")) raised %s: %s' % (nm, uid, type(exc).__name__, str(exc)[:120]))
            follow.append((label, proc, uid, cid, kind))
            return pkt + H.DELIM

        def inject(f):
            # a trailing '~' would merge with the delimiter and leave the packet unterminated (see assumptions)
            raw = f['raw'].encode('latin-1').rstrip(b'~') + H.DELIM
            label, proc = ('H>B', 'B') if f['victim'] == 'B' else ('H>A0', 'A0')
            if f.get('chase'):
                # directly behind the hostile packet: both may arrive in one read
                raw += benign(label, proc, 'same-read')
            rig.inject(label, raw)

        for wi, w in enumerate(spec['waves']):
            for f in w['forged']:
                if f['when'] == 'before':
                    inject(f)
            for ei, sc in enumerate(w['sends']):
                uid = UID0 + 100 * wi + ei
                ev = _mk(sc['name'], _args(sc, uid), sc['kwargs'])
                ev.success, ev.failure, ev.notify = sc['flags']
                for k, v in sc['meta'].items():
                    setattr(ev, k, v)
                events[uid] = ev
                p = rig.procs[sc['src']]
                if sc['src'] == 'B':
                    ev.channels = tuple(sc['channels'])
                    p.root.fire(H.go(uid, sc['how'], ev, rig.socks[sc['to']], None), 'c0')
                else:
                    conn = 'b%s' % sc['src'][1:]
                    if sc['how'] == 'client':
                        ev.channels = tuple(sc['channels'])
                        p.root.fire(H.go(uid, 'client', ev, conn, None), 'c0')
                    else:
                        chan = sc['channels'][0] if sc['channels'] else None
                        if sc['how'] == 'call':
                            p.root.fire(H.go(uid, 'call', ev, conn, chan), 'c0')
                        else:
                            fired[uid] = p.caller.fire(remote(ev, conn, channel=chan))
            complete = rig.pump(sizes, burst) and complete
            for f in w['forged']:
                if f['when'] == 'after':
                    inject(f)
            if any(f['when'] == 'after' for f in w['forged']):
                complete = rig.pump(sizes, burst) and complete

        # benign follow-up on the hostile connections (a later, separate read)
        late = False
        for label, proc in (('H>B', 'B'), ('H>A0', 'A0')):
            if label in rig.links:
                rig.inject(label, benign(label, proc, 'later-read'))
                late = True
        if late:
            complete = rig.pump([4096], 0) and complete

        for uid, v in fired.items():
            root = rig.procs[scripts[uid]['src']].root
            if not any(t[0] is v.event for t in root._tasks):   # the handler of `remote` has finished
                rig.resumed(uid, v.value, events[uid])
        dead = rig.probe_alive()

        def bad(clause, msg):
            return Result(False, clause, msg)

        # ---------------- liveness / no escape
        if rig.escaped:
            return bad('exception-escaped', 'tick() of process %s raised %s' % rig.escaped[0])
        if dead:
            return bad('loop-dead', 'local probe event no longer dispatched in %r' % dead)
        if not complete:
            return bad('no-quiescence', 'network did not become quiet within the round bound')

        stray = rig.unrequested_answers()
        if stray:
            return bad('result-to-wrong-connection', 'a result with id %r was written on %s although the peer of that connection never sent '
                       'a call with this id (results of calls received over another connection?)' % (stray[0][1], stray[0][0]))

        inv = {}
        for proc, tag, uid, name, args, kwargs, channels, snap in rig.invocations:
            inv.setdefault(uid, []).append((proc, tag, name, args, kwargs, channels, snap))
        wire_calls = {}
        for label, pkt, _ in rig.wire:
            if pkt and 'name' in pkt and isinstance(pkt.get('args'), list) and pkt['args'] and isinstance(pkt['args'][0], int):
                wire_calls.setdefault(pkt['args'][0], []).append(label)

        classes = set()
        inflight2 = False
        for wi, w in enumerate(spec['waves']):
            if len(w['sends']) >= 2:
                inflight2 = True
        for uid in sorted(u for u in scripts if u < UID0 + 9000):
            sc = scripts[uid]
            src = sc['src']
            dst = 'B' if src != 'B' else 'A%d' % sc['to']
            deny_s = sc['name'] in spec['fw'].get(src, {}).get('send', ())
            deny_r = sc['name'] in spec['fw'].get(dst, {}).get('recv', ())
            got = inv.get(uid, [])
            classes.add('how:' + sc['how'])
            classes.add('kind:' + sc['kind'])
            if deny_s:
                classes.add('fw-send-deny')
                if uid in wire_calls:
                    return bad('firewall-send', 'event %d (%s) denied by the send firewall of %s was written to %r' % (uid, sc['name'], src, wire_calls[uid]))
                if got:
                    return bad('firewall-send', 'event %d denied by the send firewall of %s was dispatched on %s' % (uid, src, got[0][0]))
                continue
            if not deny_r and sc['name'] in spec['fw'].get(dst, {}).get('raise', ()):
                # the receive predicate raises for this event: it did not let it through (what the sender is told is not
                # asserted); events next to it in the stream are judged like any other
                classes.add('fw-recv-raises')
                if got:
                    return bad('firewall-receive', 'event %d (%s): the receive firewall of %s raised, yet the event was dispatched' % (uid, sc['name'], dst))
                continue
            if deny_r:
                classes.add('fw-recv-deny')
                if got:
                    return bad('firewall-receive', 'event %d (%s) denied by the receive firewall of %s was dispatched' % (uid, sc['name'], dst))
                continue
            # effective channels on the peer
            if sc['how'] in ('call', 'fire'):
                chans = tuple(sc['channels'][:1]) if sc['channels'] else ('c0',)
            else:
                chans = tuple(sc['channels'])
            if '*' in chans:
                tags = ['t0', 't1']
            else:
                tags = [t for t, c in (('t0', 'c0'), ('t1', 'c1')) if c in chans]
            want_args = _args(sc, uid)
            seen = sorted(g[1] for g in got)
            if any(g[0] != dst for g in got):
                return bad('wrong-peer', 'event %d for %s was dispatched in %r' % (uid, dst, sorted({g[0] for g in got})))
            if seen != tags:
                if len(seen) < len(tags):
                    return bad('event-lost', 'event %d (%s, how=%s, %d bytes of args) from %s: handlers %r expected on %s, ran %r' % (
                        uid, sc['name'], sc['how'], len(json.dumps(want_args)), src, tags, dst, seen))
                return bad('event-duplicated', 'event %d: handlers %r expected on %s, ran %r' % (uid, tags, dst, seen))
            for proc, tag, name, args, kwargs, channels, snap in got:
                if name != sc['name'] or not same(args, want_args) or not same(kwargs, sc['kwargs']):
                    return bad('event-altered', 'event %d arrived as %s args=%s kwargs=%s, sent args=%s kwargs=%s' % (
                        uid, name, _short(args), _short(kwargs), _short(want_args), _short(sc['kwargs'])))
                if chans and tuple(channels) != chans:
                    return bad('event-altered', 'event %d channels %r arrived as %r' % (uid, chans, channels))
                for k, v in sc['meta'].items():
                    if k in sc['tamper_call']:
                        continue
                    if not same(snap.get(k, ABSENT), v):
                        return bad('event-altered', 'event %d attribute %s=%s arrived as %s' % (uid, k, _short(v), _short(snap.get(k))))
                for k, v in sc['tamper_call'].items():
                    if k in PROTECTED and any(same(v, d) for d in DISTINCT) and same(snap.get(k, ABSENT), v):
                        return bad('attribute-overwritten', 'peer metadata set %s=%r on the dispatched event %d' % (k, v, uid))
            if sc['tamper_call']:
                classes.add('tamper-call')
            # ---- result
            if sc['how'] == 'server_nores':
                continue
            res = rig.results.get(uid, [])
            if not res:
                return bad('result-missing', 'event %d (%s, kind=%s, how=%s) from %s ran on %s but the waiting handler was never resumed' % (
                    uid, sc['name'], sc['kind'], sc['how'], src, dst))
            if len(res) > 1:
                return bad('resumed-twice', 'waiting handler of event %d resumed %d times' % (uid, len(res)))
            value, errflag = res[0]
            kinds = [H.kind_for(sc['kind'], t) for t in tags]      # what each handler that ran did
            if sc['kind'] in ('mixed', 'mixed2') and len(set(kinds)) > 1:
                classes.add('raise-next-to-coroutine')
            if 'raise' in kinds or 'slowraise' in kinds:
                classes.add('remote-coroutine-raises') if 'slowraise' in kinds else None
                if not errflag:
                    return bad('error-flag-missing', 'handler of event %d raised on %s; sender resumed with %s and no error flag' % (uid, dst, _short(value)))
                continue
            exp = [] if sc['kind'] in ('none', 'raise', 'slowraise') else [{'r': uid, 't': t, 'a': want_args[1:], 'k': sc['kwargs']} for t in tags]
            expv = None if not exp else exp[0] if len(exp) == 1 else exp
            ok = same(value, expv)
            if not ok and 'slow' in kinds and len(exp) > 1 and isinstance(value, list):
                ok = same(sorted(value, key=lambda d: d.get('t', '') if isinstance(d, dict) else ''), expv)
            if not ok:
                return bad('wrong-result', 'event %d (%s, kind=%s, how=%s, %s->%s): waiting handler got %s, expected %s' % (
                    uid, sc['name'], sc['kind'], sc['how'], src, dst, _short(value), _short(expv)))
            if errflag:
                return bad('wrong-result', 'event %d: error flag set although the handler succeeded' % uid)
            if sc['tamper_value']:
                classes.add('tamper-value')
                ev = events[uid]
                for k, v in sc['tamper_value'].items():
                    if k in PROTECTED and any(same(v, d) for d in DISTINCT) and same(getattr(ev, k, ABSENT), v):
                        return bad('attribute-overwritten', 'peer metadata of the answer set %s=%r on the sender\'s event %d' % (k, v, uid))
        # ---- benign follow-up after hostile traffic
        for label, proc, uid, cid, kind in follow:
            got = inv.get(uid, [])
            if len(got) != 1:
                return bad('after-hostile', 'benign event sent behind the hostile packets on %s (%s) ran %d times on %s' % (label, kind, len(got), proc))
            back = [pkt for lab, pkt, _ in rig.wire if lab == '%s>H' % proc and pkt and pkt.get('id') == cid and 'value' in pkt]
            if len(back) != 1 or not same(back[0]['value'], {'r': uid, 't': 't0', 'a': ['after-hostile'], 'k': {}}):
                return bad('after-hostile', 'benign event behind hostile packets on %s (%s): %d answers %s' % (label, kind, len(back), _short(back[:1])))
            if kind == 'same-read':
                classes.add('chased-forged')

        # ---------------- classes / non-trivial
        cut_inside = sum(l.cut_inside for l in rig.links.values())
        parsed = 0
        for f in forged:
            try:
                json.loads(f['raw'].encode('latin-1').decode('utf-8'))
                parsed += 1
            except (ValueError, RecursionError):
                pass
        if cut_inside:
            classes.add('cut-inside-packet')
        if inflight2:
            classes.add('inflight>=2')
        if forged:
            classes.add('forged')
        if parsed:
            classes.add('forged-parses')
        for k in sorted(set(rig.forged_runs)):
            classes.add('forged-call-handled:' + k)
        for f in forged:
            try:
                pkt = json.loads(f['raw'])
            except (ValueError, RecursionError):
                continue
            if isinstance(pkt, dict) and 'name' in pkt:
                for fld in ('notify', 'success', 'failure'):
                    if fld in pkt and not isinstance(pkt[fld], bool):
                        classes.add('forged-odd-%s:%s' % (fld, type(pkt[fld]).__name__))
                if isinstance(pkt.get('notify'), str) and ('\x00' in pkt['notify'] or any(0xd800 <= ord(c) < 0xe000 for c in pkt['notify'])):
                    classes.add('forged-notify-not-a-type-name')
        if spec['clients'] == 2:
            classes.add('two-clients')
        if any(l.appended > 0 and max([0] + [b2 - b1 for b1, b2 in zip([0] + sorted(l.bounds), sorted(l.bounds))]) > 4096 for l in rig.links.values()):
            classes.add('packet>4096')
        nontrivial = bool(cut_inside) or inflight2 or parsed > 0 or rig.tampered > 0
        return Result(True, nontrivial=nontrivial, classes=sorted(classes))


PROP = C19()
