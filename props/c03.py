"""C03 — fire() from other threads: nothing lost or duplicated, in order per thread, and the loop always wakes.

Spec: {"idle": "fallback"|"Select"|"Poll"|"EPoll", "firers": [n0, n1?], "followup": bool, "task": bool,
       "first": "loop"|"f0"|"f1", "preempt": [[x, thread], ...], "abs": bool}
The loop thread executes the real run(); firer k fires ping(k, 0..n_k-1) from its own thread. All threads are real
threads under the cooperative scheduler of vlib/sched.py: one runs at a time, hand-over before every source line of
circuits/core/{manager,events,helpers,pollers}.py and in the lock / Event / select doubles. "preempt" lists global step
indices at which the running thread is preempted in favour of the named one ("abs": indices are absolute; otherwise they
are relative: the first modulo the step count of the unpreempted run of the same scenario, each later one a distance of
1..90 steps from the previous preemption, so that generated lists produce real chains of switches).
"""
import inspect
import os

from hypothesis import strategies as st

import circuits.core.events as _events
import circuits.core.helpers as _helpers
import circuits.core.manager as _manager
import circuits.core.pollers as _pollers
from circuits import BaseComponent, Event
from circuits.core.handlers import handler as H
from vlib import driver, sched
from vlib.runner import Prop, Result

FILES = ('circuits/core/manager.py', 'circuits/core/events.py', 'circuits/core/helpers.py', 'circuits/core/pollers.py')


class ping(Event):
    pass


class pong(Event):
    pass


def _hot_lines():
    """file basename -> set of line numbers that belong to the wake-up protocol (for the non-trivial rule)."""
    out = {}
    targets = [
        (_manager.Manager._fire, 'manager.py'), (_manager.Manager._dispatcher, 'manager.py'), (_manager.Manager.tick, 'manager.py'),
        (_events.generate_events.reduce_time_left, 'events.py'),
        (_helpers.FallBackGenerator._on_generate_events, 'helpers.py'), (_helpers.FallBackGenerator.resume, 'helpers.py'),
        (_pollers.BasePoller.resume, 'pollers.py'), (_pollers.BasePoller._on_generate_events, 'pollers.py'),
        (_pollers.Select._generate_events, 'pollers.py'), (_pollers.Poll._generate_events, 'pollers.py'),
        (_pollers.EPoll._generate_events, 'pollers.py'),
    ]
    for fn, base in targets:
        try:
            src, start = inspect.getsourcelines(fn)
        except (OSError, TypeError):
            continue
        out.setdefault(base, set()).update(range(start, start + len(src)))
    return out


class C03(Prop):
    id = 'C03'
    rule = ('scenario (idle mechanism fallback/Select/Poll/EPoll; 1-2 firing threads with 1-3 fires each; optional follow-up '
            'fired by the handler; optional pending generator task that makes idle waits timed) x schedule (preemption list at '
            'source-line granularity): ALL single-preemption schedules of every scenario are enumerated (and all '
            'two-preemption schedules of two scenarios in the thorough tier); hypothesis adds lists of 2-6 preemptions; '
            'non-trivial = a preemption actually switched threads inside _fire, the dispatcher, tick, reduce_time_left, an idle '
            'handler, resume, or one of the blocking doubles; distinct = spec hash')
    assumptions = ('interleavings are explored at source-line granularity of the four core files (the property\'s quantifier); '
                   'races inside one line are not explored',
                   'RLock, threading.Event and the select module are replaced by scheduler-aware doubles (module globals)',
                   'kqueue does not exist on Linux')
    budget = {'quick': (300, 4), 'thorough': (2500, 16)}
    shrink_lists = {'preempt': 0}
    enum_procs = 16

    def __init__(self):
        self._totals = {}
        self._hot = None

    def setup(self):
        driver.quiet_process()
        if self._hot is None:
            self._hot = _hot_lines()

    # ------------------------------------------------------------------ generators
    def strategy(self, tier):
        return st.fixed_dictionaries({
            'idle': st.sampled_from(['fallback', 'fallback', 'Select', 'Poll', 'EPoll']),
            'firers': st.lists(st.integers(1, 3), min_size=1, max_size=2),
            'followup': st.booleans(),
            'task': st.sampled_from([False, False, True]),
            'first': st.sampled_from(['loop', 'loop', 'f0']),
            'preempt': st.lists(st.tuples(st.integers(0, 5000), st.sampled_from(['*', '*', '*', '*2', 'loop', 'f0'])).map(list), min_size=2, max_size=6),
            'abs': st.just(False),
        })

    def _scenarios(self, tier):
        base = [
            {'idle': 'fallback', 'firers': [2], 'followup': False, 'task': False},
            {'idle': 'Select', 'firers': [2], 'followup': False, 'task': False},
            {'idle': 'Poll', 'firers': [2], 'followup': False, 'task': False},
            {'idle': 'EPoll', 'firers': [2], 'followup': False, 'task': False},
            {'idle': 'fallback', 'firers': [1, 1], 'followup': False, 'task': False},
            {'idle': 'fallback', 'firers': [2], 'followup': True, 'task': False},
            {'idle': 'fallback', 'firers': [2], 'followup': False, 'task': True},
        ]
        if tier == 'thorough':
            base += [
                {'idle': 'Select', 'firers': [1, 1], 'followup': True, 'task': False},
                {'idle': 'Poll', 'firers': [2], 'followup': False, 'task': True},
                {'idle': 'EPoll', 'firers': [1, 2], 'followup': False, 'task': False},
            ]
        return base

    def enumerate(self, tier):
        self.setup()
        out = []
        for sc in self._scenarios(tier):
            for first in ('loop', 'f0'):
                spec0 = dict(sc, first=first, preempt=[], abs=True)
                total, owners = self._unpreempted(spec0)
                others = ['loop'] + ['f%d' % k for k in range(len(sc['firers']))]
                last = {}
                for a, o in owners.items():
                    last[o] = max(last.get(o, 0), a)
                for a in range(1, total + 1):
                    for tgt in others:
                        # a thread that has already ended in the unpreempted run cannot be switched to
                        # (a preemption only changes what happens after step a)
                        if tgt != owners.get(a) and a <= last.get(tgt, 0) + 1:
                            out.append(dict(sc, first=first, preempt=[[a, tgt]], abs=True))
        if tier == 'thorough':
            # all two-preemption schedules (loop -> firer at a, firer -> loop at b) of two scenarios
            for sc in (self._scenarios(tier)[0], self._scenarios(tier)[1]):
                spec0 = dict(sc, first='loop', preempt=[], abs=True)
                total, owners = self._unpreempted(spec0)
                for a in range(1, total + 1):
                    if owners.get(a) != 'loop':
                        continue
                    for b in range(a + 1, min(a + 140, total + 60)):
                        out.append(dict(sc, first='loop', preempt=[[a, 'f0'], [b, 'loop']], abs=True))
        return out

    def _unpreempted(self, spec0):
        key = (spec0['idle'], tuple(spec0['firers']), spec0['followup'], spec0['task'], spec0['first'])
        if key not in self._totals:
            s, _ = self._run(spec0, {}, record_owner=True)
            self._totals[key] = (s.steps, s.owners)
        return self._totals[key]

    # ------------------------------------------------------------------ one run
    def _run(self, spec, preempt, record_owner=False):
        nf = spec['firers']
        expected = sum(nf) * (2 if spec['followup'] else 1)
        got = []
        returned = []
        state = {'done': False}

        def on_timeout(thread, why):
            if thread != 'loop':
                return None
            pend = [x for x in returned if ('ping',) + x not in got]
            if pend:
                return ('timeout-needed', 'loop sat in a timed idle wait %r and nothing else could run although fire() had returned for %r' % (why, pend))
            return None

        s = sched.Sched(preempt, FILES, on_timeout=on_timeout)
        if record_owner:
            s.owners = {}
            orig = s.yield_point

            def yp(where):
                name = s.me()
                if name in s.threads:
                    s.owners[s.steps + 1] = name
                return orig(where)
            s.yield_point = yp
        sel = sched.SelDouble(s)
        _manager.RLock = lambda: sched.DLock(s)
        _helpers.Event = lambda: sched.DEvent(s)
        _pollers.select = sel

        class App(BaseComponent):
            @H('ping')
            def _ping(self, f, i):
                got.append(('ping', f, i))
                if spec['followup']:
                    self.fire(pong(f, i))
                self._check()

            @H('pong')
            def _pong(self, f, i):
                got.append(('pong', f, i))
                self._check()

            def _check(self):
                if len(got) >= expected and not state['done']:
                    state['done'] = True
                    self.stop()

            @H('started')
            def _started(self, *a):
                if spec['task']:
                    while not state['done']:
                        yield None

        app = App()
        poller = None
        if spec['idle'] != 'fallback':
            poller = getattr(_pollers, spec['idle'])().register(app)

        def firer(k):
            def body():
                for i in range(nf[k]):
                    app.fire(ping(k, i))
                    returned.append((k, i))
            return body

        with driver.captured_stderr() as err:
            s.spawn('loop', app.run)
            for k in range(len(nf)):
                s.spawn('f%d' % k, firer(k))
            first = spec['first'] if spec['first'] in s.threads else 'loop'
            s.run(first)
        s.errout = err.getvalue()
        s.leftover = len(app._queue)
        if poller is not None:
            for fd in (poller._ctrl_recv, poller._ctrl_send):
                try:
                    os.close(fd)
                except OSError:
                    pass
        sel.close_all()
        return s, got

    # ------------------------------------------------------------------ oracle
    def execute(self, spec):
        if spec.get('abs'):
            preempt = {int(a): t for a, t in spec['preempt']}
        else:
            total, _ = self._unpreempted(dict(spec, preempt=[], abs=True))
            # first entry: position modulo the length of the unpreempted run; later entries: distance (1..90 steps)
            # from the previous preemption, so that chains of switches really happen
            preempt = {}
            pos = 0
            for k, (x, t) in enumerate(spec['preempt']):
                pos = 1 + (x % (total + 40)) if k == 0 else pos + 1 + (x % 90)
                preempt[pos] = t
        s, got = self._run(spec, preempt)
        nf = spec['firers']

        def bad(clause, msg):
            return Result(False, clause, '%s | switches=%r' % (msg, s.trace[:6]))

        if s.violation is not None:
            kind = s.violation[0]
            if kind == 'harness-timeout':
                return Result(True, inconclusive=True, classes=['inconclusive:wall-cap'])
            if kind == 'stuck':
                return bad('stuck', 'no thread can run: %r; dispatched so far %r' % (s.violation[1], got))
            return bad(kind, str(s.violation[1]))
        for name, stt in s.threads.items():
            if stt['exc'] == 'step-budget':
                return bad('live-lock', 'thread %s exceeded the step budget (%d steps)' % (name, s.steps))
            if stt['exc'] is not None:
                return bad('exception-escaped', 'thread %s ended with %r' % (name, stt['exc']))
        expected = []
        for k, n in enumerate(nf):
            for i in range(n):
                expected.append(('ping', k, i))
                if spec['followup']:
                    expected.append(('pong', k, i))
        if sorted(got) != sorted(expected):
            lost = sorted(set(expected) - set(got))
            dup = sorted(x for x in set(got) if got.count(x) > 1)
            return bad('lost-or-duplicated', 'dispatched %r; lost %r; duplicated %r' % (got, lost, dup))
        for k in range(len(nf)):
            seq = [i for (kind, f, i) in got if kind == 'ping' and f == k]
            if seq != sorted(seq):
                return bad('order', 'events of firer %d dispatched as %r' % (k, seq))
        if s.leftover:
            return bad('queue-left', '%d events left in the queue after run() returned' % s.leftover)
        if 'ERROR' in s.errout or 'Traceback' in s.errout:
            return bad('stderr', s.errout[-300:])

        hot = False
        for step, frm, where, to in s.trace:
            if ':' in where:
                base, line = where.rsplit(':', 1)
                if int(line) in self._hot.get(base, ()):
                    hot = True
            else:
                hot = True   # a blocking double (lock / event / select)
        classes = ['idle:' + spec['idle'], 'switches:%d' % min(len(s.trace), 4)]
        if s.timeouts:
            classes.append('virtual-timeout-used')
        if spec['task']:
            classes.append('timed-idle(task)')
        return Result(True, nontrivial=hot, classes=classes)


PROP = C03()
