"""C09 — timers never fire early, fire as often as specified, and bound the idle sleep (virtual clock).

Spec: {"timers": [{"at": t, "interval": g, "persist": bool, "dt": bool, "resets": [[t, g|null], ...], "unreg": t|null}, ...],
       "events": [[t, busy], ...]   (an ordinary event fired at t whose handler takes `busy` virtual seconds), "task": null | {"at": t, "steps": k}, "horizon": h}
All times are virtual seconds relative to the start. The real run() executes with the real FallBackGenerator; the
clock (`time` in circuits.core.timers / circuits.core.manager) and the idle wait (`Event` in circuits.core.helpers) are doubles:
a wait of t seconds returns at once and advances the clock by t.
"""
from datetime import datetime
from time import mktime

from hypothesis import strategies as st

import circuits.core.helpers as _helpers
import circuits.core.manager as _manager
import circuits.core.timers as _timers
from circuits import BaseComponent, Event, Timer
from circuits.core.handlers import handler as H
from vlib import driver
from vlib.runner import Prop, Result

T0 = 1_000_000.0
GRID = [0, 0.25, 0.5, 0.5, 1, 1.2, 3]
TIMES = [0, 0, 0.1, 0.3, 0.5, 0.75, 1.1, 1.6, 2.2, 2.5]
EPS = 1e-7
ITER_CAP = 1500


class Clock:
    now = T0
    waits = []      # (now, timeout, tag of wait)
    untimed = 0


class Deadlock(BaseException):
    pass


class VEvent:
    def __init__(self):
        self._flag = False

    def set(self):
        self._flag = True

    def clear(self):
        self._flag = False

    def is_set(self):
        return self._flag

    def wait(self, timeout=None):
        if self._flag:
            return True
        if timeout is None or timeout >= 1000:
            Clock.untimed += 1
            Clock.waits.append((Clock.now, None))
            raise Deadlock('untimed idle wait')
        Clock.waits.append((Clock.now, timeout))
        Clock.now += timeout
        return False


class tock(Event):
    pass


class plain(Event):
    pass


class work(Event):
    pass


class C09(Prop):
    id = 'C09'
    rule = ('timer sets (1-5 timers; intervals from {0,0.25,0.5,0.5,1,1.2,3} or a datetime deadline; persistent or one-shot; '
            'created, reset (optionally to a new interval) and unregistered at generated virtual times, reset() right behind unregister() or from the own handler of a one-shot timer) running with ordinary '
            'events and an optional generator task, under the real run() with the real fallback idle handler on a virtual '
            'clock, horizon <=6 virtual s; non-trivial = >=2 timers with different expiries pending during one idle wait, or a '
            'reset/unregister between two firings of a timer; distinct = spec hash')
    assumptions = ('the clock and the idle wait are module-global doubles; a wait of t returns at once and advances the clock by t',
                   'scheduled harness actions run in a generate_events handler (priority 50) and are followed by '
                   'reduce_time_left(0) as the generate_events contract requires',
                   'datetime deadlines are compared with a 1e-6 s tolerance (float round trip through mktime), numeric intervals exactly')
    budget = {'quick': (1200, 4), 'thorough': (40000, 16)}
    shrink_lists = {'timers': 1, 'events': 0, 'resets': 0}

    def setup(self):
        driver.quiet_process()
        _timers.time = lambda: Clock.now
        _manager.time = lambda: Clock.now
        _helpers.Event = VEvent

    def strategy(self, tier):
        timer = st.fixed_dictionaries({
            'at': st.sampled_from(TIMES), 'interval': st.sampled_from(GRID), 'persist': st.booleans(),
            'dt': st.sampled_from([False, False, False, True]),
            'resets': st.lists(st.tuples(st.sampled_from(TIMES[2:] + [3.1]), st.sampled_from([None, None] + GRID)).map(list), max_size=2),
            'unreg': st.sampled_from([None, None, 0.4, 0.9, 1.3, 2.4, 3.3]),
            'ur': st.sampled_from([None, None, None, -1, 0, 0.25]),        # reset(ur) right behind unregister() (-1: reset())
            'rearm': st.sampled_from([None, None, None, -1, 0, 0.25]),     # one-shot: its event's handler calls reset(rearm)
        })
        return st.fixed_dictionaries({
            'timers': st.lists(timer, min_size=1, max_size=5),
            'events': st.lists(st.tuples(st.sampled_from(TIMES), st.sampled_from([0, 0, 0, 0.3, 0.7, 2.5])).map(list), max_size=4),
            'task': st.one_of(st.none(), st.fixed_dictionaries({'at': st.sampled_from(TIMES), 'steps': st.integers(1, 30)})),
            'horizon': st.sampled_from([2.0, 4.0, 6.0]),
        })

    # ------------------------------------------------------------------
    def execute(self, spec):
        Clock.now = T0
        Clock.waits = []
        Clock.untimed = 0
        horizon = spec['horizon']

        plan = []
        for i, t in enumerate(spec['timers']):
            plan.append((t['at'], 0, ('create', i)))
            for k, (rt, g) in enumerate(t['resets']):
                plan.append((rt, 1, ('reset', i, g)))
            if t['unreg'] is not None:
                plan.append((t['unreg'], 2, ('unreg', i)))
        for t, busy in spec['events']:
            plan.append((t, 3, ('event', busy)))
        if spec['task']:
            plan.append((spec['task']['at'], 4, ('task', spec['task']['steps'])))
        plan.sort(key=lambda x: (x[0], x[1]))

        late_resets = []
        timers = {}     # i -> dict(t=Timer, E=expected expiry, persist, fires=[(now, iteration)], state)
        starts = []     # start time of each loop iteration
        events = []     # log
        waits_ctx = []  # per wait: min pending expected expiry, number of distinct pending expiries
        prob = []

        def pending():
            return [d for d in timers.values() if d['state'] == 'armed']

        class Sched(BaseComponent):
            @H('generate_events', priority=50)
            def _g(self, event):
                starts.append(Clock.now)
                it = len(starts) - 1
                rel = Clock.now - T0
                acted = False
                while plan and plan[0][0] <= rel + 1e-9:
                    _, _, a = plan.pop(0)
                    acted = True
                    if a[0] == 'create':
                        ts = spec['timers'][a[1]]
                        if ts['dt']:
                            arg = datetime.fromtimestamp(Clock.now + ts['interval'] + 0.5)
                            # the deadline counts at whole-second resolution: that of the datetime actually passed
                            E = float(mktime(arg.timetuple()))
                            tol = 1e-6
                        else:
                            arg = ts['interval']
                            E = Clock.now + ts['interval']
                            tol = 0.0
                        tm = Timer(arg, tock(a[1]), persist=ts['persist']).register(self)
                        timers[a[1]] = dict(t=tm, E=E, tol=tol, interval=(E - Clock.now) if ts['dt'] else ts['interval'],
                                            persist=ts['persist'], fires=[], state='armed', armed_it=it, changed=False)
                    elif a[0] == 'reset':
                        d = timers.get(a[1])
                        if d and d['state'] == 'armed':
                            if a[2] is None:
                                d['t'].reset()
                            else:
                                d['t'].reset(a[2])
                                d['interval'] = a[2]
                            d['E'] = Clock.now + d['interval']
                            d['tol'] = max(d['tol'], 0.0)
                            d['armed_it'] = it
                            d['changed'] = True
                            events.append(('reset', a[1], Clock.now))
                        elif d and d['state'] in ('unregistered', 'done'):
                            # reset() on a timer that has been unregistered / a one-shot timer that has fired (the re-arm
                            # idiom applied too late): it must never fire again, whatever interval it is given
                            d['t'].reset() if a[2] is None else d['t'].reset(a[2])
                            late_resets.append(a[1])
                    elif a[0] == 'unreg':
                        d = timers.get(a[1])
                        if d and d['state'] == 'armed':
                            d['t'].unregister()
                            d['state'] = 'unregistered'
                            if spec['timers'][a[1]].get('ur') is not None:
                                # reset() right behind unregister(), while the unregistration is still in progress
                                g = spec['timers'][a[1]]['ur']
                                d['t'].reset() if g < 0 else d['t'].reset(g)
                                late_resets.append(a[1])
                            d['unreg_at'] = (Clock.now, it)
                            d['changed'] = True
                    elif a[0] == 'event':
                        self.fire(plain(a[1]))
                    elif a[0] == 'task':
                        self.fire(work(a[1]))
                if acted:
                    event.reduce_time_left(0)
                if plan:
                    event.reduce_time_left(max(0.0, plan[0][0] - rel))
                event.reduce_time_left(max(0.0, horizon - rel))
                if rel >= horizon or len(starts) > ITER_CAP:
                    self.stop()

            @H('generate_events', priority=-99)
            def _before_idle(self, event):
                # snapshot what is pending right before the fallback handler may sleep
                exp = sorted({round(d['E'], 9) for d in pending()})
                waits_ctx.append((len(Clock.waits), exp))

            @H('tock', channel='*')
            def _tock(self, i):
                d = timers[i]
                it = len(starts) - 1
                # the timer fired in iteration `it`, i.e. at the time that iteration started (busy handlers may have
                # moved the clock since; the next expiry counts from the firing, not from this dispatch)
                fired_at = starts[it]
                d['fires'].append((fired_at, it))
                events.append(('tock', i, fired_at, it, d['E'], d['state']))
                if d['state'] != 'armed':
                    prob.append(('fired-after-unregister' if d['state'] == 'unregistered' else 'one-shot-fired-twice',
                                 'timer %d fired at +%.3f in state %s' % (i, Clock.now - T0, d['state'])))
                    return
                if fired_at + d['tol'] < d['E']:
                    prob.append(('fired-early', 'timer %d fired at +%.6f, not due before +%.6f' % (i, fired_at - T0, d['E'] - T0)))
                # was there an earlier iteration at or after the expiry in which it should have fired?
                for k in range(d['armed_it'] + 1, it):
                    if starts[k] >= d['E'] + 1e-9:
                        prob.append(('fired-late', 'timer %d due at +%.6f fired in iteration %d although iteration %d started at +%.6f' % (
                            i, d['E'] - T0, it, k, starts[k] - T0)))
                        break
                if d['persist']:
                    d['E'] = fired_at + d['interval']
                    d['armed_it'] = it
                else:
                    d['state'] = 'done'
                    if spec['timers'][i].get('rearm') is not None:
                        # the re-arm idiom applied to a one-shot timer from its own event's handler: the timer is
                        # already on its way out and must not fire a second time
                        g = spec['timers'][i]['rearm']
                        d['t'].reset() if g < 0 else d['t'].reset(g)
                        late_resets.append(i)

            @H('work')
            def _work(self, steps):
                for _ in range(steps):
                    yield None

            @H('plain')
            def _plain(self, busy):
                # a handler that takes `busy` seconds: the clock moves without the loop having slept
                Clock.now += busy
                return None

        app = Sched()
        outcome = None
        with driver.captured_stderr() as err:
            try:
                app.run()
                outcome = 'returned'
            except Deadlock:
                outcome = 'deadlock'
            except BaseException as e:  # noqa
                outcome = 'raised %r' % (e,)
        errout = err.getvalue()

        def bad(clause, msg):
            return Result(False, clause, msg)

        if outcome == 'deadlock' or Clock.untimed:
            p = [d for d in timers.values() if d['state'] == 'armed']
            return bad('untimed-wait', 'the loop asked for an untimed idle wait at +%.3f (%d timers pending)' % (Clock.now - T0, len(p)))
        if outcome != 'returned':
            return bad('run-raised', outcome)
        if 'ERROR' in errout or 'Traceback' in errout:
            return bad('stderr', errout[-300:])
        if len(starts) > ITER_CAP:
            # busy loop: the clock did not advance although nothing was due (persistent 0-interval timers are exempt)
            if not any(d['persist'] and d['interval'] <= 1e-9 for d in timers.values()):
                return bad('busy-loop', 'more than %d iterations without reaching the horizon (+%.3f reached)' % (ITER_CAP, Clock.now - T0))
        if prob:
            return bad(prob[0][0], prob[0][1])

        # idle sleeps never pass the earliest pending expiry
        multi = False
        ctx = dict(waits_ctx)  # index into Clock.waits -> expiries pending before that wait
        for k, (now, t) in enumerate(Clock.waits):
            exp = ctx.get(k)
            if exp is None or t is None:
                continue
            due = [e for e in exp]
            if due and now + t > min(due) + 1e-9 and min(due) >= now - 1e-9:
                return bad('overslept', 'idle wait of %.6f s at +%.6f passes the earliest pending expiry +%.6f' % (t, now - T0, min(due) - T0))
            if len(exp) >= 2 and t > 0:
                multi = True

        last = starts[-1] if starts else T0
        changed_between = False
        for i, d in timers.items():
            ts = spec['timers'][i]
            if d['state'] == 'armed' and d['E'] + 1e-9 < last and len(starts) <= ITER_CAP:
                # there was an iteration at/after the expiry (the last one at the latest) and it did not fire
                if any(s >= d['E'] + 1e-9 for s in starts[d['armed_it'] + 1:]):
                    return bad('never-fired', 'timer %d due at +%.6f never fired (last iteration at +%.6f)' % (i, d['E'] - T0, last - T0))
            if not ts['persist']:
                if len(d['fires']) > 1:
                    return bad('one-shot-fired-twice', 'one-shot timer %d fired %d times' % (i, len(d['fires'])))
                if d['fires'] and d['t'].parent is not d['t']:
                    return bad('one-shot-not-removed', 'one-shot timer %d fired but is still registered at the end' % i)
            else:
                for (a, _), (b, _) in zip(d['fires'], d['fires'][1:]):
                    pass  # spacing is implied by the per-firing "not before E" check (E = previous firing + interval)
            if d['changed'] and len(d['fires']) >= 1:
                changed_between = True
        classes = []
        if multi:
            classes.append('>=2-expiries-pending-in-a-wait')
        if changed_between:
            classes.append('reset/unregister-around-firings')
        if late_resets:
            classes.append('reset-after-unregister-or-last-firing')
        if any(t['dt'] for t in spec['timers']):
            classes.append('datetime-deadline')
        if spec['task']:
            classes.append('generator-task')
        if any(b > 0 for _, b in spec['events']):
            classes.append('busy-handler-delays-loop')
        if any(len(d['fires']) >= 2 for d in timers.values()):
            classes.append('persistent-refired')
        return Result(True, nontrivial=multi or changed_between, classes=classes)


PROP = C09()
