"""C11 — stream writes arrive in order, each byte once, and close waits for the buffer.

The harness plays the poller: the endpoint under test (a TCPServer connection, a TCPClient, a UNIXClient or a
File) sits on a scripted double of the OS object (``socket.socket`` subclass / ``io.FileIO`` subclass plus a
double for ``circuits.io.file.fd_write``). A ``NullPoller`` only keeps the reader/writer tables; once per loop
iteration the harness fires ``_write(fd)`` at ``poller.getTarget(fd)`` for every open descriptor the component
registered as a writer - exactly what Select/Poll/EPoll do for a writable descriptor.

Spec:
  {"ep": "server"|"tcpclient"|"unixclient"|"file",
   "sizes":  [n, ...]          payload i is a slice of n bytes of a fixed pseudo-random stream (consecutive slices)
   "script": [o, ...]          outcome of the k-th send()/fd_write() call: "all" | int k (accept k of n, resolved
                               into 1..n-1; n <= 1: accept all) | errno name; calls after the script accept all
   "close":  null | int        close request fired after that many writes (resolved modulo len(sizes)+1)
   "closekind": "request"|"eof" how the close is requested (default "request" = a close event). "eof" (server
                               connection, TCP/UNIX client; File: taken as "request"): the peer ends its stream - from
                               that position on recv() of the double returns b'' and the harness fires the poller's
                               _read(sock) at the endpoint there and, like a level-triggered poller, in every later
                               loop iteration while the descriptor is still registered as reader (a descriptor that is
                               no reader any more at that position - closed by a fatal error - never sees the EOF);
                               the peer keeps reading (half-close), so send() goes on following the script
   "rfirst": bool              order inside one loop iteration: _read before _write (Poll/EPoll) or after it (Select)
   "text":   [0|1|2, ...]      File only: payload i is written as bytes (0; [] = all bytes), as ASCII str (1) or as str
                               with 1-, 2- and 3-byte UTF-8 characters (2) of n CHARACTERS (n capped at 64 KiB+1);
                               the list is applied cyclically ([2] = every payload is multi-byte text);
                               the bytes expected on the descriptor are the text encoded with File's encoding (utf-8)
   "pump":   [int, ...]        loop iterations run after the i-th operation (missing: 0 = same tick as the next op)
   "closeall": bool            server only: the close request is close() of the whole server, not close(sock)
   "other":  int               server only: number of writes to a second, fault-free connection, interleaved
  }

Oracle (observations: bytes accepted by the double, its close()/shutdown(), error/disconnect events):
  * always: accepted bytes are a prefix of the concatenation of all payloads written (nothing repeated,
    reordered, foreign);
  * no fatal error raised: everything written before the close request (the dispatch of the _read that sees the
    end of the peer's stream) is accepted (all of it when no close is requested); a requested close has taken
    effect at quiescence; writer interest is given up;
  * after the endpoint announced disconnect/disconnected/closed no further byte is accepted;
  * fatal error raised by a send: an error/disconnect/disconnected (File: closed) event is dispatched afterwards.
"""
import errno
import io
import os
import random
import socket

from hypothesis import strategies as st

import circuits.io.file as cfile
from circuits import BaseComponent, Manager, handler
from circuits.core.pollers import BasePoller, _read as p_read, _write as p_write
from circuits.io import events as ioev
from circuits.io.file import File
from circuits.net import events as netev
from circuits.net.sockets import TCPClient, TCPServer, UNIXClient, UNIXServer
from vlib import driver
from vlib.runner import Prop, Result

TRANSIENT = ('EAGAIN', 'EWOULDBLOCK', 'EINTR', 'ENOBUFS')
FATAL = ('EPIPE', 'ECONNRESET', 'ENOTCONN', 'ETIMEDOUT')
ENUM_OUTCOMES = ('all', 2, 'EAGAIN', 'EWOULDBLOCK', 'EINTR', 'ENOBUFS', 'EPIPE', 'ECONNRESET')
ENUM_SIZES = [4, 3, 5, 2]
ENUM_CLOSE = [None, 1, 2, 4]
ENUM_NEW_LEN = 2   # the new close kind / str payloads are enumerated for scripts up to this length only (cost)
ENDPOINTS = ('server', 'tcpclient', 'file', 'unixclient', 'unixserver')
SERVERS = ('server', 'unixserver')

BLOCK_LEN = 6 << 20
_BLOCK = [None]


def _stream(off, n):
    """n bytes of the fixed pseudo-random stream starting at offset off (wraps around)."""
    b = _BLOCK[0]
    if b is None:
        b = _BLOCK[0] = random.Random(0xC11).randbytes(BLOCK_LEN)
    off %= BLOCK_LEN
    if off + n <= BLOCK_LEN:
        return b[off:off + n]
    out = b[off:]
    n -= len(out)
    parts = [out]
    while n > 0:
        parts.append(b[:n])
        n -= len(parts[-1])
    return b''.join(parts)


TEXT_MAX = 65537
_TO_ASCII = bytes(i & 0x7F for i in range(256))


def _text(kind, off, n):
    """n characters derived from the stream at offset off: kind 1 = ASCII, kind 2 = code page 437 (the 128 upper
    characters take 2 or 3 bytes each in UTF-8, so character index != byte index almost everywhere)."""
    raw = _stream(off, n)
    return raw.translate(_TO_ASCII).decode('ascii') if kind == 1 else raw.decode('cp437')


# --------------------------------------------------------------------------------------------- doubles
class Wire:
    """What the OS saw on one descriptor."""

    def __init__(self, script):
        self.script = list(script)
        self.pos = 0
        self.accepted = bytearray()
        self.calls = []          # (kind, outcome, len(data))
        self.offs = []           # parallel to calls: (bytes accepted before the call, bytes accepted by it)
        self.closed_at = None    # len(accepted) at the first shutdown()/close() of the double
        self.after_close = 0     # send attempts on the closed double (they fail with EBADF like the real thing)
        self.fatal_calls = []    # indices into calls
        self.pending = lambda a: 0
        self.hard = 0            # partial/transient outcomes consumed while >= 2 payloads were pending
        self.consumed = set()

    def mark_closed(self):
        if self.closed_at is None:
            self.closed_at = len(self.accepted)

    def send(self, data):
        if self.closed_at is not None:
            self.after_close += 1
            raise OSError(errno.EBADF, os.strerror(errno.EBADF))
        n = len(data)
        act = self.script[self.pos] if self.pos < len(self.script) else 'all'
        self.pos += 1
        if isinstance(act, int) and act == 0 and n >= 1:
            kind, k = 'part', 0          # nothing accepted, nothing raised (a stalled TLS layer, a full pipe opened O_NONBLOCK by a wrapper)
        elif isinstance(act, int):
            if n <= 1:
                kind, k = 'all', n
            else:
                kind, k = 'part', 1 + (act - 1) % (n - 1)
        elif act == 'all':
            kind, k = 'all', n
        else:
            kind = 'transient' if act in TRANSIENT else 'fatal'
            if kind == 'fatal':
                self.fatal_calls.append(len(self.calls))
            elif self.pending(len(self.accepted)) >= 2:
                self.hard += 1
            self.calls.append((kind, act, n))
            self.offs.append((len(self.accepted), 0))
            self.consumed.add(kind)
            code = getattr(errno, act)
            raise OSError(code, os.strerror(code))
        if kind == 'part' and self.pending(len(self.accepted)) >= 2:
            self.hard += 1
        self.calls.append((kind, act, n))
        self.offs.append((len(self.accepted), k))
        self.consumed.add(kind)
        self.accepted += data if k == n else data[:k]
        return k


class ScriptSock(socket.socket):
    """A real, unconnected descriptor (identity, fileno) whose send() follows the script."""

    def __init__(self, script, family=socket.AF_INET):
        super().__init__(family, socket.SOCK_STREAM)
        self.wire = Wire(script)
        self.eof = False         # the peer has ended its stream: recv() returns b''

    def getpeername(self):
        return ('127.0.0.1', 5555)

    def connect(self, addr):
        return None

    def connect_ex(self, addr):
        return 0

    def setblocking(self, flag):
        pass

    def send(self, data, *flags):
        return self.wire.send(data)

    def recv(self, n, *flags):
        if self.eof:
            return b''
        raise OSError(errno.EWOULDBLOCK, os.strerror(errno.EWOULDBLOCK))

    def shutdown(self, how):
        self.wire.mark_closed()

    def close(self):
        self.wire.mark_closed()
        super().close()


class Listen(socket.socket):
    def __init__(self, conns):
        super().__init__()
        self.conns = list(conns)

    def accept(self):
        if not self.conns:
            raise OSError(errno.EWOULDBLOCK, os.strerror(errno.EWOULDBLOCK))
        return self.conns.pop(0), ('127.0.0.1', 5555)

    def getsockname(self):
        return ('127.0.0.1', 9)


_FILES = {}  # fileno -> Wire of the open ScriptFile
_real_fd_write = os.write


def _fd_write(fd, data):
    wire = _FILES.get(fd)
    if wire is None:
        return _real_fd_write(fd, data)
    return wire.send(data)


class ScriptFile(io.FileIO):
    def __init__(self, script):
        super().__init__('/dev/null', 'w')
        self.wire = Wire(script)
        self._no = self.fileno()
        _FILES[self._no] = self.wire

    def close(self):
        if not self.closed:
            self.wire.mark_closed()
            _FILES.pop(self._no, None)
        super().close()


class NullPoller(BasePoller):
    channel = 'nullpoller'

    def _generate_events(self, event):
        pass


class Obs(BaseComponent):
    channel = '*'

    def init(self, wire, main, ep):
        self.wire = wire
        self.main = main
        self.ep = ep
        self.log = []           # (name, calls so far, accepted so far)
        self.writes = 0         # write events for the main descriptor dispatched so far
        self.close_seen = None  # (writes dispatched, bytes accepted) when the close request was dispatched
        self.eof_seen = None    # the same for the first _read that finds the end of the peer's stream
        self.exceptions = []

    @handler('error', 'disconnect', 'disconnected', 'closed', channel='*', priority=100)
    def _signal(self, event, *args, **kwargs):
        if self.ep in SERVERS:
            if event.name == 'closed' or not args or args[0] is not self.main:
                return
        elif self.ep != 'file' and event.name == 'closed':
            return
        self.log.append((event.name, len(self.wire.calls), len(self.wire.accepted)))

    @handler('write', channel='*', priority=100)
    def _on_write(self, event, *args, **kwargs):
        if self.ep in SERVERS and (not args or args[0] is not self.main):
            return
        self.writes += 1

    @handler('close', channel='*', priority=100)
    def _on_close(self, event, *args, **kwargs):
        if self.close_seen is None:
            self.close_seen = (self.writes, len(self.wire.accepted))

    @handler('_read', channel='*', priority=100)
    def _on_read(self, event, *args, **kwargs):
        if self.eof_seen is None and args and args[0] is self.main and getattr(self.main, 'eof', False):
            self.eof_seen = (self.writes, len(self.wire.accepted))

    @handler('exception', channel='*', priority=100)
    def _on_exception(self, event, etype, value, tb, handler=None, fevent=None):
        self.exceptions.append('%s: %s' % (getattr(etype, '__name__', etype), value))


# --------------------------------------------------------------------------------------------- property
def _outcomes(big):
    parts = [1, 1, 2, 3, 7, 63, 100, 4095, 4096, 0] + ([65536, 1000003] if big else [65536])
    return st.sampled_from(['all'] * 3 + parts + list(TRANSIENT) * 3 + ['EPIPE', 'ECONNRESET', 'ECONNRESET', 'ENOTCONN', 'ETIMEDOUT'])


class C11(Prop):
    id = 'C11'
    level = 'fault_enumeration'
    rule = ('case = endpoint (TCPServer connection | UNIXServer connection | TCPClient | UNIXClient | File) x list of payload sizes '
            '(0..64, 4096, 4097, 64 KiB+1, 1 MiB; thorough also 2 MiB+1 and 3 MiB) x script of send()/fd_write() outcomes '
            '(accept all | accept k of n | EAGAIN | EWOULDBLOCK | EINTR | ENOBUFS | EPIPE | ECONNRESET | ENOTCONN | '
            'ETIMEDOUT) x position of the close request (none, before/between/after the writes) x kind of close '
            '(close event - server: close(sock) or close() - | sockets: end of the peer\'s stream = recv() returns b\'\' '
            'at the poller\'s _read, level-triggered, peer keeps reading) x loop iterations between operations x order '
            'of _read/_write inside an iteration; File payloads are bytes, ASCII str or str with 1-3-byte UTF-8 '
            'characters (<= 64 KiB+1 characters; expected bytes = text.encode(utf-8)); the harness plays the poller. '
            'Exhaustive part: all '
            'scripts of length <= 3 over the 8 outcomes of the quantifier x {server, tcpclient, file} x 4 close '
            'positions, payloads 4,3,5,2 bytes, x {all operations in one tick, one loop iteration after each operation}; '
            'for scripts of length <= 2 also the 3 close positions as end of the peer\'s stream (server, tcpclient) and '
            'the payloads as multi-byte str of 4,3,5,2 characters (file). '
            'non-trivial = a partial accept or a '
            'transient refusal was actually consumed by a send() while >= 2 non-empty written payloads were not yet '
            'fully accepted; distinct = distinct spec hash')
    assumptions = (
        'send() never accepts 0 bytes of a non-empty payload (a real kernel raises EAGAIN instead)',
        'what happens to payloads written after the close request (after the _read event that found the end of the peer\'s stream was dispatched) is only constrained to "in order, once, not after the endpoint closed"',
        'the end of the peer\'s stream is a half-close: the peer still reads, send() keeps following the script; an endpoint that reads b\'\' has requested its own close at that moment',
        'a str payload stands for its encoding with the File\'s encoding (utf-8 here); only File accepts str',
        'a send attempt on the already closed descriptor (fails with EBADF, nothing reaches the OS) is not counted as a write after close',
        'poller contract as verified by C10: _write(fd) is delivered once per iteration while the component is registered as writer',
    )
    budget = {'quick': (1000, 4), 'thorough': (50000, 16)}

    def setup(self):
        driver.quiet_process()
        cfile.fd_write = _fd_write
        _stream(0, 1)

    # ------------------------------------------------------------------ generation
    def strategy(self, tier):
        big = tier != 'quick'
        small = st.integers(0, 64)
        if big:
            size = st.one_of(small, small, small, small, small,
                             st.sampled_from([4096, 4097] * 4 + [65537, 1 << 20, (2 << 20) + 1, 3 << 20]))
        else:
            size = st.one_of(small, small, small, small, small, small,
                             st.sampled_from([4096, 4097] * 6 + [65537, 1 << 20]))
        return st.fixed_dictionaries({
            'ep': st.sampled_from(['server'] * 3 + ['tcpclient'] * 3 + ['file'] * 3 + ['unixclient', 'unixserver']),
            'sizes': st.lists(size, min_size=1, max_size=8),
            'script': st.lists(_outcomes(big), max_size=12),
            'close': st.one_of(st.none(), st.integers(0, 8)),
            'pump': st.lists(st.sampled_from([0, 0, 0, 1, 1, 2, 4]), max_size=10),
            'closeall': st.sampled_from([False, False, False, True]),
            'other': st.sampled_from([0, 0, 0, 1, 2, 3]),
            'closekind': st.sampled_from(['request', 'request', 'eof']),
            'rfirst': st.booleans(),
            'text': st.lists(st.sampled_from([0, 1, 2, 2]), max_size=4),
        })

    def enumerate(self, tier):
        import itertools
        out = []
        for ln in range(4):
            for script in itertools.product(ENUM_OUTCOMES, repeat=ln):
                for ep in ('server', 'tcpclient', 'file'):
                    for c in ENUM_CLOSE:
                        for pump in ([], [1] * 5):   # all operations in one tick | one loop iteration after each
                            base = {'ep': ep, 'sizes': ENUM_SIZES, 'script': list(script), 'close': c,
                                    'pump': pump, 'closeall': False, 'other': 0}
                            out.append(base)
                            if ep != 'file' and c is not None and ln <= ENUM_NEW_LEN:   # the same close position as the peer's end of stream
                                out.append(dict(base, closekind='eof'))
                            if ep == 'file' and ln <= ENUM_NEW_LEN:   # the same payload sizes as multi-byte text
                                out.append(dict(base, text=[2]))
        return out

    # ------------------------------------------------------------------ real execution
    def _run(self, spec):
        ep = spec['ep']
        sizes = list(spec['sizes'])
        close_at = spec.get('close')
        if close_at is not None:
            close_at %= len(sizes) + 1
        pump = list(spec.get('pump') or [])
        n_other = spec.get('other', 0) if ep in SERVERS else 0
        eof = close_at is not None and spec.get('closekind') == 'eof' and ep != 'file'
        closeall = bool(spec.get('closeall')) and ep in SERVERS and close_at is not None and not eof
        text = list(spec.get('text') or []) if ep == 'file' else []
        kinds = [text[i % len(text)] if text else 0 for i in range(len(sizes))]

        payloads = []   # what is written: bytes | str
        expected = []   # the bytes that have to reach the descriptor for it
        off = 0
        for n, kind in zip(sizes, kinds):
            if kind:
                n = min(n, TEXT_MAX)
                payloads.append(_text(kind, off, n))
                expected.append(payloads[-1].encode('utf-8'))
            else:
                payloads.append(_stream(off, n))
                expected.append(payloads[-1])
            off += n
        lens = [len(e) for e in expected]
        others = [_stream(BLOCK_LEN // 2 + 977 * i, 5 + 3 * i) for i in range(n_other)]

        root = Manager()
        poller = NullPoller().register(root)
        fds = []
        other = None
        listen = None
        exc = None
        obs = None
        still_writing = []
        state = {'stuck': False, 'setup': True, 'eof_fired': False}
        try:
            if ep in SERVERS:
                main = ScriptSock(spec['script'], socket.AF_UNIX if ep == 'unixserver' else socket.AF_INET)
                fds.append(main)
                conns = [main]
                if n_other:
                    other = ScriptSock([])
                    fds.append(other)
                    conns.append(other)
                listen = Listen(conns)
                fds.append(listen)
                comp = (UNIXServer if ep == 'unixserver' else TCPServer)(listen, channel='server')
                chan = 'server'
            elif ep == 'tcpclient':
                main = ScriptSock(spec['script'])
                fds.append(main)
                comp = TCPClient(main, channel='client')
                chan = 'client'
            elif ep == 'unixclient':
                main = ScriptSock(spec['script'], socket.AF_UNIX)
                fds.append(main)
                comp = UNIXClient(main, channel='client')
                chan = 'client'
            else:
                main = ScriptFile(spec['script'])
                fds.append(main)
                comp = File(main, channel='file')
                chan = 'file'
            wire = main.wire
            obs = Obs(wire, main, ep).register(root)
            comp.register(root)

            ends = []
            t = 0
            for n in lens:
                t += n
                ends.append(t)

            def pending(accepted):
                return sum(1 for i in range(min(obs.writes, len(lens))) if lens[i] and ends[i] > accepted)

            wire.pending = pending

            def write_fds():
                out = [main]
                if other is not None:
                    out.append(other)
                return [f for f in out if f.wire.closed_at is None]

            def readable():
                # level-triggered: the end of the peer's stream is reported as long as the descriptor is a reader
                if state['eof_fired'] and main.wire.closed_at is None and poller.isReading(main):
                    root.fire(p_read(main), poller.getTarget(main))

            def iteration():
                if spec.get('rfirst'):
                    readable()
                for fd in write_fds():
                    if poller.isWriting(fd):
                        root.fire(p_write(fd), poller.getTarget(fd))
                if not spec.get('rfirst'):
                    readable()
                root.tick()

            if driver.settle(root, 50) < 0:
                state['setup'] = False
            if ep in SERVERS:
                for _ in conns:
                    root.fire(p_read(listen), chan)
                    driver.settle(root, 50)
                if main not in comp._clients:
                    state['setup'] = False
            elif ep == 'tcpclient':
                root.fire(netev.connect('127.0.0.1', 5555), chan)
                driver.settle(root, 50)
                if not comp.connected:
                    state['setup'] = False
            elif ep == 'unixclient':
                root.fire(netev.connect('/nowhere'), chan)
                driver.settle(root, 50)
                if not comp.connected:
                    state['setup'] = False
            else:
                if comp._fd is not main:
                    state['setup'] = False

            # operation list: writes to the main descriptor, the close request, bystander writes interleaved
            ops = []
            for i in range(len(sizes) + 1):
                if close_at == i:
                    ops.append(('close', None))
                if i < len(sizes):
                    ops.append(('w', i))
                    if i < n_other:
                        ops.append(('o', i))
            for j in range(len(sizes), n_other):
                ops.append(('o', j))

            for k, (op, i) in enumerate(ops):
                if op == 'w':
                    if ep in SERVERS:
                        root.fire(netev.write(main, payloads[i]), chan)
                    elif ep == 'file':
                        root.fire(ioev.write(payloads[i]), chan)
                    else:
                        root.fire(netev.write(payloads[i]), chan)
                elif op == 'o':
                    root.fire(netev.write(other, others[i]), chan)
                elif eof:
                    if main.wire.closed_at is None and poller.isReading(main):
                        main.eof = True
                        state['eof_fired'] = True
                        root.fire(p_read(main), poller.getTarget(main))
                else:
                    if ep in SERVERS:
                        root.fire(netev.close() if closeall else netev.close(main), chan)
                    elif ep == 'file':
                        root.fire(ioev.close(), chan)
                    else:
                        root.fire(netev.close(), chan)
                for _ in range(pump[k] if k < len(pump) else 0):
                    iteration()

            bound = 3 * (len(spec['script']) + len(sizes) + n_other) + 20
            for _ in range(bound):
                if driver.quiescent(root) and not any(poller.isWriting(f) for f in write_fds()):
                    break
                iteration()
            else:
                state['stuck'] = True
            still_writing = [f is main for f in write_fds() if poller.isWriting(f)]
        except Exception:  # escaped from tick(): the loop of a real application would have died
            import traceback
            exc = traceback.format_exc()[-600:]
        finally:
            snap = {
                'accepted': main.wire.accepted, 'closed_at': main.wire.closed_at,
                'calls': list(main.wire.calls), 'offs': list(main.wire.offs), 'fatal_calls': list(main.wire.fatal_calls),
                'after_close': main.wire.after_close, 'hard': main.wire.hard, 'consumed': set(main.wire.consumed),
                'other_accepted': bytes(other.wire.accepted) if other is not None else b'',
                'other_closed': other.wire.closed_at is not None if other is not None else False,
            }
            for f in fds:
                try:
                    f.close()
                except Exception:
                    pass
            for p in (poller._ctrl_recv, poller._ctrl_send):
                try:
                    os.close(p)
                except OSError:
                    pass
        return {
            'payloads': payloads, 'expected': expected, 'kinds': kinds, 'others': others, 'close_at': close_at,
            'eof': eof, 'eof_fired': state['eof_fired'], 'closeall': closeall, 'snap': snap, 'exc': exc,
            'eof_seen': obs.eof_seen if obs is not None else None,
            'log': list(obs.log) if obs is not None else [], 'exceptions': list(obs.exceptions) if obs is not None else [],
            'stuck': state['stuck'], 'setup': state['setup'], 'still_writing': still_writing,
            'close_seen': obs.close_seen if obs is not None else None,
        }

    # ------------------------------------------------------------------ oracle
    def execute(self, spec):
        with driver.captured_stderr():
            r = self._run(spec)
        ep = spec['ep']
        snap = r['snap']
        payloads = r['expected']   # the bytes each written payload stands for (str payloads: encoded)
        kinds = r['kinds']
        close_at = r['close_at']
        if r['eof'] and not r['eof_fired']:
            close_at = None   # the descriptor was no reader any more (torn down by a fatal error): no EOF seen, no close
        acc = snap['accepted']
        n_all = sum(len(p) for p in payloads)
        n_pre = n_all if close_at is None else sum(len(p) for p in payloads[:close_at])
        fatal = bool(snap['fatal_calls'])
        log = r['log']

        def bad(clause, msg):
            extra = ''
            if r['exceptions']:
                extra = ' handler exceptions: %r' % r['exceptions'][:2]
            return Result(False, clause, '%s [ep=%s calls=%r events=%r%s]' % (
                msg, ep, [(k, o if not isinstance(o, int) else 'part') for k, o, _ in snap['calls'][:12]],
                [n for n, _, _ in log[:8]], extra))

        if not r['setup']:
            # connect/accept/open did not work on the doubles: nothing about C11 can be said
            return Result(True, classes=['setup-failed', 'ep:' + ep], inconclusive=True)
        if r['exc']:
            return bad('exception-escaped', 'exception escaped tick(): %s' % r['exc'])

        # in order, each byte once: accepted is always a prefix of what was written
        if any(kinds):
            is_prefix = len(acc) <= n_all and b''.join(payloads).startswith(acc)
        elif n_all <= BLOCK_LEN:  # payloads are consecutive slices of the stream: compare in place
            is_prefix = len(acc) <= n_all and memoryview(_BLOCK[0])[:len(acc)] == acc
        else:
            is_prefix = _stream(0, n_all).startswith(acc)
        if not is_prefix:
            w_all = b''.join(payloads)
            k = 0
            m = min(len(acc), len(w_all))
            while k < m and acc[k] == w_all[k]:
                k += 1
            if len(acc) > len(w_all) and k == len(w_all):
                return bad('repeated', 'more bytes accepted (%d) than written (%d)' % (len(acc), len(w_all)))
            return bad('not-prefix', 'accepted bytes diverge from the written stream at offset %d '
                                     '(accepted %d, written %d)%s' % (k, len(acc), len(w_all),
                                                                      ' after a fatal send error' if fatal else ''))
        # nothing written after the endpoint announced that it closed
        for name, ncalls, nacc in log:
            if name in ('disconnect', 'disconnected', 'closed'):
                if nacc != len(acc):
                    return bad('written-after-closed', '%d bytes accepted after %s was dispatched' % (len(acc) - nacc, name))
                break
        if fatal:
            j = snap['fatal_calls'][0]
            if not any(ncalls > j for _, ncalls, _ in log):
                return bad('fatal-unsignalled', 'send() raised %s but no error/disconnect event followed' % snap['calls'][j][1])
        else:
            if len(acc) < n_pre:
                what = 'the close took effect' if snap['closed_at'] is not None else 'quiescence'
                if close_at is not None and r['eof']:
                    what = "the close triggered by the end of the peer's stream took effect"
                return bad('lost', 'only %d of the %d bytes written before %s were accepted (transient refusals/partial '
                                   'sends only)' % (len(acc), n_pre, what if close_at is not None else 'quiescence'))
            if close_at is not None and snap['closed_at'] is None:
                return bad('close-not-effected', '%s, buffer drained, but the descriptor was never closed' % (
                    "the peer ended its stream (recv() returned b'')" if r['eof'] else 'close requested'))
            if r['stuck'] or any(r['still_writing']):
                return bad('writer-not-dropped', 'still registered as writer after everything was accepted (busy loop)')
        # bystander connection of the same server: untouched by the faults of the main one
        if r['others']:
            if snap['other_accepted'] != b''.join(r['others']) and not r['closeall']:
                return bad('other-connection', 'second connection got %d bytes, %d written' % (
                    len(snap['other_accepted']), len(b''.join(r['others']))))
            if not b''.join(r['others']).startswith(snap['other_accepted']):
                return bad('other-connection', 'second connection got bytes that were not written to it in that order')

        classes = ['ep:' + ep]
        classes.append('close:' + ('none' if close_at is None else 'first' if close_at == 0 else
                                   'last' if close_at == len(payloads) else 'mid'))
        for kind in sorted(snap['consumed']):
            classes.append('consumed:' + kind)
        if snap['hard']:
            classes.append('refusal-with>=2-buffered')
        if r['close_seen'] is not None:
            nw, nacc = r['close_seen']
            if sum(len(p) for p in payloads[:nw]) > nacc:
                classes.append('close-while-buffered')
        if close_at is not None:
            classes.append('closekind:' + ('eof' if r['eof'] else 'close()' if r['closeall'] else 'request'))
        if r['eof_seen'] is not None:
            nw, nacc = r['eof_seen']
            if sum(len(p) for p in payloads[:nw]) > nacc:
                classes.append('eof-while-buffered')
        if close_at is not None and close_at < len(payloads):
            classes.append('write-after-eof' if r['eof'] else 'write-after-close-request')
        if any(kinds):
            # first send of a str payload (File encodes it there): what did the OS do with it?
            starts = {}
            t = 0
            for i, p in enumerate(payloads):
                if kinds[i] and p:
                    starts[t] = i
                t += len(p)
            for (kind, _, n), (at, k) in zip(snap['calls'], snap['offs']):
                i = starts.get(at)
                if i is None or n != len(payloads[i]):
                    continue
                del starts[at]
                name = 'str-ascii' if kinds[i] == 1 else 'str-multibyte'
                classes.append('first-send-%s:%s' % (name, kind))
                if kind == 'part' and kinds[i] == 2:
                    if payloads[i][k] & 0xC0 == 0x80:
                        classes.append('partial-cuts-inside-character')
                    if len(payloads[i][:k].decode('utf-8', 'ignore')) != k:
                        classes.append('partial-after-non-ascii(char-index!=byte-index)')
            for kk, name in ((1, 'payload:str-ascii'), (2, 'payload:str-multibyte')):
                if kk in kinds:
                    classes.append(name)
            if 0 in kinds:
                classes.append('payload:str-and-bytes-mixed')
        if snap['after_close']:
            classes.append('send-attempt-on-closed-fd')
        if any(len(p) >= 65536 for p in payloads):
            classes.append('payload>=64KiB')
        if any(len(p) == 0 for p in payloads):
            classes.append('empty-payload')
        if r['others']:
            classes.append('second-connection')
        if r['exceptions']:
            classes.append('handler-exception')
        return Result(True, nontrivial=bool(snap['hard']), classes=list(dict.fromkeys(classes)))


PROP = C11()
