"""C17 - WebSocket frames round-trip exactly, whatever the segmentation or fragmentation.

Code under test: ``circuits.protocols.websocket.WebSocketCodec`` driven through its real event interface
(``read`` on the parent's channel in, ``read`` on the codec's channel out; ``write``/``close`` on the codec's
channel in, ``write`` on the parent's channel out), in server mode (``sock`` given, peer frames masked, codec
frames unmasked) and in client mode (``sock=None``, peer frames unmasked, codec frames masked; optionally the
first piece of the stream is handed to the constructor as ``data=`` like ``WebSocketClient`` does with the
body that followed the 101 response).

The judge is an independent RFC 6455 section 5 codec written from the RFC (``ref_encode_frame`` /
``RefDecoder`` below): the harness *encodes* what the peer sends and *decodes* what the codec writes.

Spec::

  {"mode": "server"|"client", "init": bool, "ops": [op, ...], "cuts": [[sel, a, b], ...]}
  op = ["msg", kind, len_idx, seed, [split, ...], [[gap, ikind, pl_idx, seed], ...], [k0, k1, k2, k3]]
           peer -> codec data message; kind "t"/"b"; split into len(splits)+1 frames at n*split//1000;
           ikind in ping/pong/send/pclose/lclose is placed after fragment ``gap % (nfrags-1)`` (dropped when
           unfragmented)
     | ["ping", pl_idx, seed, key] | ["pong", pl_idx, seed, key]      peer -> codec control frame
     | ["pclose", code_idx, key]                                     peer -> codec close frame
     | ["send", kind, len_idx, seed]                                 application writes a message to the codec
     | ["lclose"]                                                    application fires close on the codec's channel
     | ["other", n]                                                  server mode: traffic of a second connection
  cuts: one generated multi-cut of the peer's byte stream; sel 0 = inside header of frame ``a`` at byte ``b``,
        sel 1 = absolute offset.

Per spec the stream is delivered (each time to a fresh codec) in one piece, byte by byte through every header,
in 4096 byte reads, with the generated multi-cut, and - streams of at most SHORT bytes - with every single cut
and one byte at a time. Application side operations keep their place between the peer's frames: they run as
soon as every byte that precedes them has been delivered (so a cut may move them behind frames that arrived in
the same read; the expectation is computed from that effective order).
"""
import json
import os
import re
import shutil
import struct
import subprocess
import sys
import tempfile

from hypothesis import strategies as st

from circuits import BaseComponent, Manager
from circuits.core.handlers import handler
from circuits.net.events import close, read, write
from circuits.protocols.websocket import WebSocketCodec
from vlib import driver
from vlib.runner import Prop, Result

# --------------------------------------------------------------------------- independent RFC 6455 codec
OP_CONT, OP_TEXT, OP_BIN, OP_CLOSE, OP_PING, OP_PONG = 0, 1, 2, 8, 9, 10


def _xor(payload, key):
    """RFC 6455 5.3: octet i of the transformed data is octet i of the original XOR key[i mod 4]."""
    n = len(payload)
    if not n:
        return b''
    k = (bytes(key) * (n // 4 + 1))[:n]
    return (int.from_bytes(payload, 'big') ^ int.from_bytes(k, 'big')).to_bytes(n, 'big')


def ref_encode_frame(opcode, payload, fin=True, key=None):
    """RFC 6455 5.2 base framing. key=None: unmasked (server to client), else 4 byte masking key."""
    b0 = (0x80 if fin else 0) | opcode
    n = len(payload)
    m = 0x80 if key is not None else 0
    if n <= 125:
        head = struct.pack('!BB', b0, m | n)
    elif n < 65536:
        head = struct.pack('!BBH', b0, m | 126, n)
    else:
        head = struct.pack('!BBQ', b0, m | 127, n)
    if key is not None:
        return head + bytes(key), _xor(payload, key)
    return head, bytes(payload)


class ProtocolError(Exception):
    pass


class RefDecoder:
    """Strict RFC 6455 receiver for one direction. ``expect_mask``: True = frames must be masked (we are a
    server reading a client), False = must not be masked. Whether close frames obey the masking rule is
    recorded (``close_mask_ok``) but not enforced: no clause of C17 speaks about it.

    feed(data, tag) -> events so far. Events: ('msg', 't'|'b', payload, tag_of_last_frame),
    ('ping', payload, tag), ('pong', payload, tag), ('close', payload, tag).
    """

    def __init__(self, expect_mask):
        self.expect_mask = expect_mask
        self.buf = b''
        self.tags = []  # (end offset in total stream, tag)
        self.consumed = 0
        self.events = []
        self.frag_op = None
        self.frag = []
        self.frames = 0
        self.close_mask_ok = True
        self.length_forms = set()

    def _tag_at(self, off):
        for end, tag in self.tags:
            if off < end:
                return tag
        return self.tags[-1][1] if self.tags else None

    def feed(self, data, tag=None):
        self.buf += data
        total = (self.tags[-1][0] if self.tags else 0) + len(data)
        self.tags.append((total, tag))
        while True:
            buf = self.buf
            if len(buf) < 2:
                return
            b0, b1 = buf[0], buf[1]
            fin, rsv, opcode = b0 & 0x80, b0 & 0x70, b0 & 0x0F
            masked, n7 = b1 & 0x80, b1 & 0x7F
            if rsv:
                raise ProtocolError('RSV bits set in frame %d' % self.frames)
            if opcode not in (OP_CONT, OP_TEXT, OP_BIN, OP_CLOSE, OP_PING, OP_PONG):
                raise ProtocolError('reserved opcode %d' % opcode)
            off = 2
            if n7 == 126:
                if len(buf) < 4:
                    return
                n = struct.unpack('!H', buf[2:4])[0]
                if n < 126:
                    raise ProtocolError('length %d not in minimal form (16 bit)' % n)
                off = 4
                form = 16
            elif n7 == 127:
                if len(buf) < 10:
                    return
                n = struct.unpack('!Q', buf[2:10])[0]
                if n >> 63:
                    raise ProtocolError('64 bit length with most significant bit set')
                if n < 65536:
                    raise ProtocolError('length %d not in minimal form (64 bit)' % n)
                off = 10
                form = 64
            else:
                n = n7
                form = 7
            if opcode >= 8:
                if not fin:
                    raise ProtocolError('fragmented control frame')
                if n7 > 125:
                    raise ProtocolError('control frame payload longer than 125')
            if masked:
                if len(buf) < off + 4:
                    return
                key = buf[off:off + 4]
                off += 4
            if len(buf) < off + n:
                return
            payload = buf[off:off + n]
            if masked:
                payload = _xor(payload, key)
            mask_ok = bool(masked) == self.expect_mask
            if opcode == OP_CLOSE:
                self.close_mask_ok = self.close_mask_ok and mask_ok
            elif not mask_ok:
                raise ProtocolError('frame %d (opcode %d) is %s' % (
                    self.frames, opcode, 'masked but comes from a server' if masked else 'not masked but comes from a client'))
            tag = self._tag_at(self.consumed)
            self.consumed += off + n
            self.buf = buf[off + n:]
            self.frames += 1
            self.length_forms.add(form)
            if opcode == OP_PING:
                self.events.append(('ping', payload, tag))
            elif opcode == OP_PONG:
                self.events.append(('pong', payload, tag))
            elif opcode == OP_CLOSE:
                if n == 1:
                    raise ProtocolError('close frame with 1 byte payload')
                self.events.append(('close', payload, tag))
            else:
                if opcode == OP_CONT:
                    if self.frag_op is None:
                        raise ProtocolError('continuation frame without a message in progress')
                else:
                    if self.frag_op is not None:
                        raise ProtocolError('new data frame while a fragmented message is in progress')
                    self.frag_op = opcode
                self.frag.append(payload)
                if fin:
                    whole = b''.join(self.frag)
                    kind = 't' if self.frag_op == OP_TEXT else 'b'
                    if kind == 't':
                        try:
                            whole.decode('utf-8')
                        except UnicodeDecodeError:
                            raise ProtocolError('text message is not valid UTF-8')
                    self.events.append(('msg', kind, whole, tag))
                    self.frag_op = None
                    self.frag = []

    def finish(self):
        if self.buf:
            raise ProtocolError('truncated frame at end of output (%d bytes)' % len(self.buf))
        if self.frag_op is not None:
            raise ProtocolError('fragmented message never finished')


# --------------------------------------------------------------------------- payloads
LENS = [0, 1, 5, 125, 126, 127, 300, 4096, 4097, 65535, 65536, 70000]
LEN_IDX = [0, 1, 2, 2, 3, 3, 4, 4, 5, 5, 6, 7, 8, 9, 9, 10, 10, 11, 3, 4]
CTL_LENS = [0, 1, 4, 124, 125]
CLOSE_PAYLOADS = [b'', struct.pack('!H', 1000), struct.pack('!H', 1001) + b'going away', struct.pack('!H', 1000) + b'x' * 123]
KEYS = [[0, 0, 0, 0], [255, 255, 255, 255], [1, 2, 3, 4], [0x80, 0, 0x81, 0x7f], [0, 0, 0, 1]]
_UNIT = 'aé€\U0001F600zÿβ中\x00\x7f\U00010348'
SHORT = 72
BUFSIZE = 4096


def bin_payload(n, seed):
    if not n:
        return b''
    block = bytes((seed * 37 + j * 11 + (j * j >> 3)) & 0xFF for j in range(251))
    return (block * (n // 251 + 1))[:n]


def text_payload(n, seed):
    """valid UTF-8 of exactly n bytes with 1-4 byte characters."""
    r = seed % len(_UNIT)
    chars = _UNIT[r:] + _UNIT[:r] + chr(0x41 + seed % 26)
    unit = chars.encode('utf-8')
    out = unit * (n // len(unit))
    rem = n - len(out)
    for ch in chars:
        b = ch.encode('utf-8')
        if len(b) <= rem:
            out += b
            rem -= len(b)
    return out + b'~' * rem


def payload(kind, n, seed):
    return text_payload(n, seed) if kind == 't' else bin_payload(n, seed)


# --------------------------------------------------------------------------- timeline
class Item:
    __slots__ = ('dir', 'what', 'kind', 'data', 'frame', 'hdr', 'start', 'end', 'infrag', 'last')

    def __init__(self, dir, what, kind=None, data=b''):
        self.dir = dir        # 'in' (a peer frame) | 'out' (an application side operation)
        self.what = what      # in: 'data' | 'ping' | 'pong' | 'close'; out: 'send' | 'lclose' | 'other'
        self.kind = kind
        self.data = data      # in/data with last=True: whole message; ping/pong: payload; send: payload
        self.frame = b''
        self.hdr = 0
        self.start = self.end = 0
        self.infrag = False
        self.last = False


def _key(key, i):
    return [(k + 17 * i) & 0xFF for k in key] if i else list(key)


def build_timeline(spec):
    """ops -> list of Items in spec order with stream offsets."""
    server = spec['mode'] == 'server'
    items = []
    nframe = [0]

    def inframe(what, opcode, pl, fin, key, kind=None, data=b'', last=False, infrag=False):
        it = Item('in', what, kind, data)
        k = _key(key, nframe[0]) if server else None
        nframe[0] += 1
        head, body = ref_encode_frame(opcode, pl, fin, k)
        it.frame = head + body
        it.hdr = len(head)
        it.last = last
        it.infrag = infrag
        items.append(it)

    for op in spec['ops']:
        t = op[0]
        if t == 'msg':
            _, kind, li, seed, splits, inter, key = op
            n = LENS[LEN_IDX[li % len(LEN_IDX)]]
            data = payload(kind, n, seed)
            offs = sorted(n * s // 1000 for s in splits[:3])
            bounds = [0] + offs + [n]
            nfr = len(bounds) - 1
            gaps = {}
            if nfr > 1:
                for g, ik, pi, sd in inter[:3]:
                    gaps.setdefault(g % (nfr - 1), []).append((ik, pi, sd))
            for i in range(nfr):
                opcode = (OP_TEXT if kind == 't' else OP_BIN) if i == 0 else OP_CONT
                inframe('data', opcode, data[bounds[i]:bounds[i + 1]], i == nfr - 1, key, kind, data, last=(i == nfr - 1))
                for ik, pi, sd in gaps.get(i, ()):
                    if ik == 'send':
                        items.append(Item('out', 'send', 't', text_payload(CTL_LENS[pi % len(CTL_LENS)], sd)))
                    elif ik == 'lclose':
                        items.append(Item('out', 'lclose'))
                    elif ik == 'pclose':
                        inframe('close', OP_CLOSE, CLOSE_PAYLOADS[pi % len(CLOSE_PAYLOADS)], True, key, infrag=True)
                    else:
                        pl = bin_payload(CTL_LENS[pi % len(CTL_LENS)], sd)
                        inframe(ik, OP_PING if ik == 'ping' else OP_PONG, pl, True, key, data=pl, infrag=True)
        elif t in ('ping', 'pong'):
            _, pi, seed, key = op
            pl = bin_payload(CTL_LENS[pi % len(CTL_LENS)], seed)
            inframe(t, OP_PING if t == 'ping' else OP_PONG, pl, True, key, data=pl)
        elif t == 'pclose':
            _, ci, key = op
            inframe('close', OP_CLOSE, CLOSE_PAYLOADS[ci % len(CLOSE_PAYLOADS)], True, key)
        elif t == 'send':
            _, kind, li, seed = op
            items.append(Item('out', 'send', kind, payload(kind, LENS[LEN_IDX[li % len(LEN_IDX)]], seed)))
        elif t == 'lclose':
            items.append(Item('out', 'lclose'))
        elif t == 'other':
            if server:
                items.append(Item('out', 'other', 't', ('o%d' % op[1]).encode()))
    pos = 0
    for it in items:
        it.start = pos
        if it.dir == 'in':
            pos += len(it.frame)
        it.end = pos
    return items, pos


def resolve_cuts(cuts, frames, total):
    out = set()
    if total < 2:
        return []
    for sel, a, b in cuts:
        if sel == 0 and frames:
            f = frames[a % len(frames)]
            c = f.start + 1 + b % f.hdr
        else:
            c = 1 + (a * 65536 + b) % (total - 1)
        if 0 < c < total:
            out.add(c)
    return sorted(out)


def schedule(items, total, cuts, init):
    """-> list of steps ('chunk', s, e) / ('out', item) / and the effective order of items.

    An application side operation runs once every byte before its place in the stream has been delivered;
    with ``init`` the first chunk goes to the constructor, so nothing can run before it."""
    bounds = [0] + list(cuts) + [total]
    chunks = [(bounds[i], bounds[i + 1]) for i in range(len(bounds) - 1) if bounds[i + 1] > bounds[i]]
    outs = [it for it in items if it.dir == 'out']
    ins = [it for it in items if it.dir == 'in']
    steps = []
    order = []  # (item, step index)
    oi = ii = 0
    for ci, (s, e) in enumerate(chunks):
        if not (init and ci == 0):
            while oi < len(outs) and outs[oi].start <= s:
                order.append((outs[oi], len(steps)))
                steps.append(('out', outs[oi]))
                oi += 1
        while ii < len(ins) and ins[ii].end <= e:
            order.append((ins[ii], len(steps)))
            ii += 1
        steps.append(('chunk', s, e))
    while oi < len(outs):
        order.append((outs[oi], len(steps)))
        steps.append(('out', outs[oi]))
        oi += 1
    return steps, order


# --------------------------------------------------------------------------- rig
class _Sock:
    """Stand-in for the connection object; the codec only compares it and tests its truth value."""

    def __init__(self, name):
        self.name = name

    def __repr__(self):
        return '<sock %s>' % self.name


class _Transport(BaseComponent):
    channel = 'raw'

    def init(self, rec):
        self.rec = rec

    @handler('write')
    def _w(self, *args):
        self.rec.wrote(args)

    @handler('close')
    def _c(self, *args):
        self.rec.transport_closes += 1


class _App(BaseComponent):
    channel = 'ws'

    def init(self, rec):
        self.rec = rec

    @handler('read')
    def _r(self, *args):
        self.rec.delivered(args)


class _Catch(BaseComponent):
    channel = '*'

    def init(self, rec):
        self.rec = rec

    @handler('exception', channel='*')
    def _x(self, etype, evalue, tb, handler=None, fevent=None):
        where = ''
        for line in reversed(tb or []):
            if 'circuits/' in line:
                where = line.strip().split('\n')[0]
                break
        self.rec.exceptions.append('%s: %s [%s]' % (getattr(etype, '__name__', etype), str(evalue)[:80], where[-90:]))


class _Rec:
    def __init__(self, server):
        self.server = server
        self.step = -1
        self.out = {}        # sock name -> list of (step, bytes)
        self.reads = []      # (step, sock name, message)
        self.exceptions = []
        self.transport_closes = 0
        self.malformed = []

    def wrote(self, args):
        if self.server:
            if len(args) != 2 or not isinstance(args[0], _Sock):
                self.malformed.append('write%r' % (tuple(type(a).__name__ for a in args),))
                return
            name, data = args[0].name, args[1]
        else:
            if len(args) != 1:
                self.malformed.append('write%r' % (tuple(type(a).__name__ for a in args),))
                return
            name, data = 'main', args[0]
        if not isinstance(data, (bytes, bytearray)):
            self.malformed.append('write payload of type %s' % type(data).__name__)
            return
        self.out.setdefault(name, []).append((self.step, bytes(data)))

    def delivered(self, args):
        if self.server:
            if len(args) != 2 or not isinstance(args[0], _Sock):
                self.malformed.append('read%r' % (tuple(type(a).__name__ for a in args),))
                return
            name, data = args[0].name, args[1]
        else:
            if len(args) != 1:
                self.malformed.append('read%r' % (tuple(type(a).__name__ for a in args),))
                return
            name, data = 'main', args[0]
        self.reads.append((self.step, name, data))


def run_real(spec, stream, steps):
    server = spec['mode'] == 'server'
    rec = _Rec(server)
    root = Manager()
    _Catch(rec).register(root)
    tr = _Transport(rec).register(root)
    _App(rec).register(root)
    sock = _Sock('main') if server else None
    other = _Sock('other') if server else None
    stuck = False
    raised = None

    def settle():
        return driver.settle(root, 60) < 0

    try:
        first = 0
        if server:
            WebSocketCodec(sock, channel='ws').register(tr)
            WebSocketCodec(other, channel='ws').register(tr)
        else:
            data = b''
            if spec.get('init') and steps and steps[0][0] == 'chunk':
                rec.step = 0
                data = stream[steps[0][1]:steps[0][2]]
                first = 1
            WebSocketCodec(data=data, channel='ws').register(tr)
        stuck = settle()
        for si in range(first, len(steps)):
            if stuck:
                break
            st_ = steps[si]
            rec.step = si
            if st_[0] == 'chunk':
                piece = stream[st_[1]:st_[2]]
                root.fire(read(sock, piece) if server else read(piece), 'raw')
            else:
                it = st_[1]
                if it.what == 'send':
                    msg = it.data.decode('utf-8') if it.kind == 't' else it.data
                    root.fire(write(sock, msg) if server else write(msg), 'ws')
                elif it.what == 'lclose':
                    root.fire(close(sock) if server else close(), 'ws')
                elif it.what == 'other':
                    head, body = ref_encode_frame(OP_TEXT, it.data, True, [9, 8, 7, 6])
                    root.fire(read(other, head + body), 'raw')
                    root.fire(write(other, 'w' + it.data.decode()), 'ws')
            stuck = settle()
    except Exception as e:  # escaped from tick()/constructor
        import traceback
        tb = traceback.extract_tb(e.__traceback__)
        where = ''
        for fr in reversed(tb):
            if '/circuits/' in fr.filename:
                where = '%s:%d' % (fr.filename.split('/circuits/')[-1], fr.lineno)
                break
        raised = '%s: %s [%s]' % (type(e).__name__, str(e)[:80], where)
    return rec, stuck, raised


# --------------------------------------------------------------------------- oracle for one delivery
def judge(spec, items, order, steps, rec, stuck, raised):
    """-> (clause, msg) or None."""
    server = spec['mode'] == 'server'
    if raised:
        return 'exception-escaped', 'exception left the codec: %s' % raised
    if rec.exceptions:
        return 'exception-escaped', 'exception event: %s' % rec.exceptions[0]
    if stuck:
        return 'no-quiescence', 'event queue did not drain'
    if rec.malformed:
        return 'malformed-event', rec.malformed[0]

    # ---- what the codec wrote, as a strict peer sees it
    dec = RefDecoder(expect_mask=not server)
    try:
        for step, data in rec.out.get('main', []):
            dec.feed(data, step)
        dec.finish()
    except ProtocolError as e:
        return 'written-stream-invalid', 'a conforming peer cannot decode what the codec wrote: %s' % e
    wrote = dec.events
    rec.close_mask_ok = dec.close_mask_ok
    close_out_step = None
    for ev in wrote:
        if ev[0] == 'close':
            close_out_step = ev[-1]
            break

    # ---- codec -> peer data messages
    # written before any close frame went either way: must arrive; written after the codec sent its close
    # frame: must not; written after the peer's close frame arrived but before the codec sent its own
    # (the pinned codec answers at once, so this window is empty there): either is acceptable.
    peer_close = None
    for idx, (it, si) in enumerate(order):
        if it.dir == 'in' and it.what == 'close':
            peer_close = idx
            break
    must_send, may_send = [], []
    for idx, (it, si) in enumerate(order):
        if it.dir != 'out' or it.what != 'send':
            continue
        if close_out_step is not None and si >= close_out_step:
            continue
        if peer_close is not None and idx > peer_close:
            may_send.append((it.kind, it.data))
        else:
            must_send.append((it.kind, it.data))
    got_sent = [(ev[1], ev[2]) for ev in wrote if ev[0] == 'msg']
    if got_sent[:len(must_send)] != must_send or not _subsequence(got_sent[len(must_send):], may_send):
        late = [ev for ev in wrote if ev[0] == 'msg' and close_out_step is not None and ev[-1] > close_out_step]
        if late:
            return 'sent-after-close', 'data message written after the codec had sent a close frame (%s, %d bytes)' % (late[0][1], len(late[0][2]))
        return 'write-roundtrip', 'messages written differ: ' + _diff(must_send + may_send, got_sent)
    seen_close = False
    for ev in wrote:
        if ev[0] == 'close':
            seen_close = True
        elif ev[0] == 'msg' and seen_close:
            return 'sent-after-close', 'data frame follows a close frame in the written stream'

    # ---- peer -> codec data messages
    required, optional = [], []
    req_pings, opt_pings = [], []
    for idx, (it, si) in enumerate(order):
        if it.dir != 'in':
            continue
        after_peer_close = peer_close is not None and idx > peer_close
        after_own_close = close_out_step is not None and si > close_out_step
        if it.what == 'data' and it.last:
            if after_peer_close:
                continue
            (optional if after_own_close else required).append((it.kind, it.data))
        elif it.what == 'ping':
            if after_peer_close or after_own_close:
                opt_pings.append(it.data)
            else:
                req_pings.append(it.data)
    got = []
    for step, name, data in rec.reads:
        if name != 'main':
            continue
        if isinstance(data, str):
            got.append(('t', data.encode('utf-8', 'surrogatepass')))
        elif isinstance(data, (bytes, bytearray)):
            got.append(('b', bytes(data)))
        else:
            return 'read-roundtrip', 'read event carries a %s' % type(data).__name__
    expect = required + optional
    k = len(got) - len(required)
    if not (k >= 0 and got[:len(required)] == required and got[len(required):] == optional[:k]):
        if peer_close is not None and len(got) > len(expect) and got[:len(expect)] == expect:
            return 'delivered-after-close', 'message delivered that arrived after the peer\'s close frame: ' + _diff(expect, got)
        return 'read-roundtrip', 'messages delivered differ: ' + _diff(expect, got)

    # ---- ping -> pong
    pongs = [ev[1] for ev in wrote if ev[0] == 'pong']
    if pongs[:len(req_pings)] != req_pings:
        return 'ping-pong', 'pongs written %s, pings received %s' % (_short(pongs), _short(req_pings))
    if not _subsequence(pongs[len(req_pings):], opt_pings):
        return 'ping-pong', 'pong without a ping: pongs %s, pings %s (+%s after close)' % (_short(pongs), _short(req_pings), _short(opt_pings))
    if any(ev[0] == 'ping' for ev in wrote):
        return 'ping-pong', 'codec sent a ping of its own'

    # ---- the second connection of the same server is not disturbed (and does not disturb)
    if server:
        others = [it.data for it, si in order if it.dir == 'out' and it.what == 'other']
        got_o = [d for _, name, d in rec.reads if name == 'other']
        if got_o != [o.decode() for o in others]:
            return 'other-connection', 'second connection received %r, expected %r' % (got_o[:4], others[:4])
        d2 = RefDecoder(expect_mask=False)
        try:
            for step, data in rec.out.get('other', []):
                d2.feed(data, step)
            d2.finish()
        except ProtocolError as e:
            return 'other-connection', 'second connection: written stream invalid: %s' % e
        if [(e[1], e[2]) for e in d2.events] != [('t', b'w' + o) for o in others]:
            return 'other-connection', 'second connection: written messages differ'
    return None


def _subsequence(got, allowed):
    j = 0
    for g in got:
        while j < len(allowed) and allowed[j] != g:
            j += 1
        if j == len(allowed):
            return False
        j += 1
    return True


def _short(l):
    return '[' + ', '.join(('%r' % bytes(x)) if len(x) <= 12 else ('<%d bytes %r..>' % (len(x), bytes(x[:6]))) for x in l[:6]) + (', ...' if len(l) > 6 else '') + ']'


def _diff(expect, got):
    k = 0
    while k < min(len(expect), len(got)) and expect[k] == got[k]:
        k += 1

    def d(x):
        if x is None:
            return 'nothing'
        kind, data = x
        if len(data) <= 16:
            return '%s:%r' % (kind, data)
        return '%s:<%d bytes %r..%r>' % (kind, len(data), data[:6], data[-4:])

    e = expect[k] if k < len(expect) else None
    g = got[k] if k < len(got) else None
    extra = ''
    if e is not None and g is not None and e[0] == g[0] and len(e[1]) == len(g[1]):
        for i, (a, b) in enumerate(zip(e[1], g[1])):
            if a != b:
                extra = ' first differing byte %d' % i
                break
    return 'expected %d, got %d; at #%d expected %s got %s%s' % (len(expect), len(got), k, d(e), d(g), extra)


def _validate(spec):
    def key_ok(k):
        return isinstance(k, list) and len(k) == 4 and all(isinstance(x, int) and 0 <= x <= 255 for x in k)

    def ints(*xs):
        return all(isinstance(x, int) and not isinstance(x, bool) for x in xs)

    if spec.get('mode') not in ('server', 'client') or not isinstance(spec.get('ops'), list) or not isinstance(spec.get('cuts'), list):
        raise ValueError('malformed C17 spec')
    for c in spec['cuts']:
        if not (isinstance(c, list) and len(c) == 3 and ints(*c)):
            raise ValueError('malformed cut %r' % (c,))
    arity = {'msg': 7, 'ping': 4, 'pong': 4, 'pclose': 3, 'send': 4, 'lclose': 1, 'other': 2}
    for op in spec['ops']:
        if not (isinstance(op, list) and op and op[0] in arity and len(op) == arity[op[0]]):
            raise ValueError('malformed op %r' % (op,))
        t = op[0]
        ok = True
        if t == 'msg':
            ok = (op[1] in ('t', 'b') and ints(op[2], op[3]) and isinstance(op[4], list) and ints(*op[4])
                  and isinstance(op[5], list) and key_ok(op[6])
                  and all(isinstance(i, list) and len(i) == 4 and ints(i[0], i[2], i[3])
                          and i[1] in ('ping', 'pong', 'send', 'pclose', 'lclose') for i in op[5]))
        elif t in ('ping', 'pong'):
            ok = ints(op[1], op[2]) and key_ok(op[3])
        elif t == 'pclose':
            ok = ints(op[1]) and key_ok(op[2])
        elif t == 'send':
            ok = op[1] in ('t', 'b') and ints(op[2], op[3])
        elif t == 'other':
            ok = ints(op[1])
        if not ok:
            raise ValueError('malformed op %r' % (op,))


# --------------------------------------------------------------------------- Prop
class C17(Prop):
    id = 'C17'
    rule = ('hypothesis-generated timelines of peer frames (text/binary messages with payload lengths from '
            '{0,1,5,125,126,127,300,4096,4097,65535,65536,70000}, split into 1-4 frames, ping/pong/application '
            'writes between the fragments, stand-alone ping/pong, close frames followed by more traffic) and '
            'application side writes/close, server mode (peer masked, any key) and client mode (peer unmasked; '
            'first read optionally through the constructor); each timeline is delivered in one piece, byte-wise '
            'through every header, in 4096 byte reads, with a generated multi-cut, and (stream <= %d bytes) with '
            'every single cut and byte by byte; expectations come from an independent RFC 6455 encoder/decoder. '
            'exhaustive_subdomain = grid of every listed length x text/binary x server/client/client-constructor x '
            '{1 frame, 2 fragments with a ping between, 3 fragments} plus an application write of the same length, '
            'each with all of these deliveries. '
            'non-trivial = some delivery cuts a frame inside its header (2 byte header, extended length or '
            'masking key) of a frame whose header is longer than 2 bytes, or a ping/pong sits between the '
            'fragments of a message; distinct = distinct spec hash' % SHORT)
    assumptions = (
        'after the codec itself has sent a close frame, delivering further peer messages and answering further pings is optional',
        'pings that arrive after the peer\'s close frame need not be answered',
        'whether the close frame written in client mode is masked is not asserted (recorded as class close-unmasked-by-client)',
        'relative order of pongs and data frames in the written stream is not asserted',
        'the peer is conforming: control payloads <= 125 bytes, valid UTF-8 text, client frames masked, server frames unmasked',
    )
    fast = False  # the atheris campaign skips the per-byte single cuts (coverage feedback picks the cuts)
    budget = {'quick': (500, 4), 'thorough': (12000, 16)}

    def setup(self):
        driver.quiet_process()

    def strategy(self, tier):
        big = tier != 'quick'
        key = st.one_of(st.sampled_from(KEYS), st.lists(st.integers(0, 255), min_size=4, max_size=4))
        li = st.integers(0, len(LEN_IDX) - 1)
        seed = st.integers(0, 255)
        pl = st.integers(0, len(CTL_LENS) - 1)
        inter = st.lists(st.tuples(st.integers(0, 2), st.sampled_from(['ping', 'ping', 'ping', 'pong', 'pong', 'send', 'send', 'pclose', 'lclose']), pl, seed).map(list), max_size=2)
        kinds = ['msg'] * 8 + ['ping', 'ping', 'pong', 'send', 'send', 'send', 'pclose', 'lclose', 'other']

        def mk(t):
            k, tb, l, sd, splits, it, ky, p = t
            if k == 'msg':
                return ['msg', tb, l, sd, splits, it, ky]
            if k in ('ping', 'pong'):
                return [k, p, sd, ky]
            if k == 'send':
                return ['send', tb, l, sd]
            if k == 'pclose':
                return ['pclose', p, ky]
            if k == 'other':
                return ['other', sd % 10]
            return ['lclose']

        # one flat tuple per op (all fields drawn, the kind picks what is used): weighted kinds, shrinks well
        op = st.tuples(st.sampled_from(kinds), st.sampled_from(['t', 'b']), li, seed,
                       st.one_of(st.just([]), st.lists(st.integers(0, 1000), max_size=3)), inter, key, pl).map(mk)
        cut = st.tuples(st.sampled_from([0, 0, 0, 1]), st.integers(0, 15), st.integers(0, 65535)).map(list)
        return st.fixed_dictionaries({
            'mode': st.sampled_from(['server', 'client']),
            'init': st.sampled_from([False, False, True]),
            'ops': st.lists(op, min_size=1, max_size=12 if big else 8),
            'cuts': st.lists(cut, min_size=1, max_size=6),
        })

    # ------------------------------------------------------------------ thorough: atheris campaign
    FUZZ_PROCS = int(os.environ.get('C17_FUZZ_PROCS', '16'))
    FUZZ_RUNS = int(os.environ.get('C17_FUZZ_RUNS', '12000'))

    def enumerate(self, tier):
        """The finite grid (see grid()). In the thorough tier the coverage-guided campaign
        (vlib/c17_helpers.py, oracle inside the target) runs here as well: a failing spec it finds is handed to
        the runner together with the grid and executed like an enumerated case (-> VIOLATION + replay file);
        a clean campaign adds nothing; its statistics are appended to ``rule`` so that they appear in the
        evidence file (the evidence key exhaustive_subdomain describes the grid only)."""
        grid = self.grid()
        if tier != 'thorough' or os.environ.get('C17_NO_FUZZ'):
            return grid
        return grid + self.campaign()

    def grid(self):
        """finite sub-domain run exhaustively in every tier: every payload length of LENS x text/binary x
        {server, client, client with the first read through the constructor} x {one frame, two fragments with a
        ping in between, three fragments}; the same length/type is also written by the application; each with
        all deliveries of execute() (all single cuts when the stream is short)."""
        out = []
        for mode, init in (('server', False), ('client', False), ('client', True)):
            for kind in 'tb':
                for n in range(len(LENS)):
                    li = LEN_IDX.index(n)
                    for shape in range(3):
                        splits = [[], [400], [1, 999]][shape]
                        inter = [[0, 'ping', 1 + n % 4, n]] if shape == 1 else []
                        out.append({'mode': mode, 'init': init, 'cuts': [[0, 0, 1], [0, 1, 3]],
                                    'ops': [['msg', kind, li, n + shape, splits, inter, [n, 255 - n, 0x80, shape]],
                                            ['send', kind, li, n + 7]]})
        return out

    def campaign(self):
        from vlib import runner
        verif = runner.VERIF
        if not os.path.isdir(os.path.join(verif, '.deps', 'atheris')):
            self.rule += ' | atheris campaign skipped: atheris not installed in .deps'
            return []
        seed = int(os.environ.get('VERIF_SEED', '1') or 1)
        top = tempfile.mkdtemp(prefix='c17-fuzz-')
        env = dict(os.environ, PYTHONHASHSEED='0',
                   PYTHONPATH=os.pathsep.join([runner.REPO, verif, os.path.join(verif, '.deps')]))
        procs = []
        failing, notes, covs, runs = [], [], [], 0
        try:
            for k in range(self.FUZZ_PROCS):
                d = os.path.join(top, 'p%d' % k)
                os.makedirs(d)
                log = open(os.path.join(d, 'log'), 'w')
                procs.append((d, log, subprocess.Popen(
                    [sys.executable, '-m', 'vlib.c17_helpers', '--out', d, '--corpus', os.path.join(verif, 'corpus', 'C17'),
                     '-runs=%d' % self.FUZZ_RUNS, '-seed=%d' % (seed * 1000 + k)],
                    cwd=verif, env=env, stdout=subprocess.DEVNULL, stderr=log)))
            for d, log, p in procs:
                try:
                    rc = p.wait(timeout=3600)
                except subprocess.TimeoutExpired:
                    p.kill()
                    p.wait()
                    rc = None
                log.close()
                text = open(os.path.join(d, 'log'), errors='replace').read()
                if rc == 1 and os.path.exists(os.path.join(d, 'C17-fuzz.json')):
                    with open(os.path.join(d, 'C17-fuzz.json')) as f:
                        failing.append(json.load(f))
                elif rc == 0:
                    m = re.findall(r'cov: (\d+)', text)
                    if m:
                        covs.append(int(m[-1]))
                    m = re.search(r'number_of_executed_units: (\d+)', text)
                    runs += int(m.group(1)) if m else 0
                else:
                    notes.append('campaign %s ended rc=%r: %s' % (os.path.basename(d), rc, text[-200:].replace('\n', ' ')))
        finally:
            for d, log, p in procs:
                if p.poll() is None:
                    p.kill()
            shutil.rmtree(top, ignore_errors=True)
        self.rule += (' | thorough tier additionally ran %d atheris campaigns (spec decoded from fuzzer bytes, same oracle, '
                      'seeds %d..%d): %d executions, edge coverage %s, %d violations%s' % (
                          self.FUZZ_PROCS, seed * 1000, seed * 1000 + self.FUZZ_PROCS - 1, runs,
                          ('%d-%d' % (min(covs), max(covs))) if covs else 'n/a', len(failing),
                          ('; ' + '; '.join(notes)) if notes else ''))
        seen, out = set(), []
        for f in failing:
            if f['clause'] not in seen:
                seen.add(f['clause'])
                out.append(f['spec'])
        return out

    # ------------------------------------------------------------------
    def deliveries(self, spec, items, total):
        frames = [it for it in items if it.dir == 'in']
        out = [('whole', [])]
        if total >= 2:
            drip = set()
            for f in frames:
                drip.update(range(f.start, f.start + f.hdr + 1))
            out.append(('drip', sorted(c for c in drip if 0 < c < total)))
            gen = resolve_cuts(spec['cuts'], frames, total)
            if gen:
                out.append(('gen', gen))
            if total > BUFSIZE:
                out.append(('bufsize', list(range(BUFSIZE, total, BUFSIZE))))
            if total <= SHORT and not self.fast:
                out.append(('bytewise', list(range(1, total))))
                for c in range(1, total):
                    out.append(('single', [c]))
        return out

    def normalize(self, spec):
        """The runner's structural shrinker deletes list elements anywhere; ops, keys and cuts have a fixed
        arity, so a candidate that lost a field is rejected (ValueError) instead of being misread."""
        _validate(spec)
        return spec

    def execute(self, spec):
        _validate(spec)
        spec = dict(spec)
        if spec['mode'] != 'client':
            spec['init'] = False
        items, total = build_timeline(spec)
        stream = b''.join(it.frame for it in items if it.dir == 'in')
        frames = [it for it in items if it.dir == 'in']
        classes = ['mode:' + spec['mode']]
        hdr_cut = False
        ctl_in_frag = any(it.infrag and it.what in ('ping', 'pong') for it in frames)
        failure = None
        close_unmasked = False
        with driver.captured_stderr():
            for name, cuts in self.deliveries(spec, items, total):
                steps, order = schedule(items, total, cuts, spec['init'])
                rec, stuck, raised = run_real(spec, stream, steps)
                bad = judge(spec, items, order, steps, rec, stuck, raised)
                for c in cuts:
                    for f in frames:
                        if f.start < c < f.start + f.hdr:
                            if f.hdr > 2:
                                hdr_cut = True
                            break
                if bad:
                    failure = (bad[0], '%s [mode=%s delivery=%s cuts=%r of %d]' % (bad[1], spec['mode'], name, cuts[:8], total))
                    break
                if not getattr(rec, 'close_mask_ok', True):
                    close_unmasked = True
        if failure:
            return Result(False, failure[0], failure[1])
        if close_unmasked:
            classes.append('close-unmasked-by-client')
        if hdr_cut:
            classes.append('cut-inside-header')
        if ctl_in_frag:
            classes.append('control-inside-fragmented')
        if any(it.what == 'data' and not it.last for it in frames):
            classes.append('fragmented')
        if total <= SHORT and total >= 2:
            classes.append('all-single-cuts')
        if total > BUFSIZE:
            classes.append('beyond-read-buffer')
        forms = {it.hdr - (4 if spec['mode'] == 'server' else 0) for it in frames}
        for h, label in ((2, 'len7'), (4, 'len16'), (10, 'len64')):
            if h in forms:
                classes.append('in-' + label)
        outs = [it for it in items if it.dir == 'out']
        if any(it.what == 'send' for it in outs):
            classes.append('app-write')
        if any(it.what == 'send' and len(it.data) > 65535 for it in outs):
            classes.append('app-write-len64')
        if any(it.what == 'ping' for it in frames):
            classes.append('ping')
        pc = [i for i, it in enumerate(items) if it.dir == 'in' and it.what == 'close']
        if pc:
            classes.append('peer-close')
            if any(it.what == 'data' or it.what == 'send' for it in items[pc[0] + 1:]):
                classes.append('traffic-after-peer-close')
        lc = [i for i, it in enumerate(items) if it.what == 'lclose']
        if lc:
            classes.append('local-close')
            if any(it.what in ('send', 'ping') for it in items[lc[0] + 1:]):
                classes.append('traffic-after-local-close')
        if spec['init']:
            classes.append('client-initial-data')
        return Result(True, nontrivial=bool(frames) and (hdr_cut or ctl_in_frag), classes=classes)


PROP = C17()
