#!/bin/sh
# usage: tools/seed_regress.sh [parallelism]  — run the quick tier of the owning check against every stored seeded change;
# prints one line per change: "<dir> rc=<exit> <first violated clause>"; a change is caught iff rc=1.
cd /verif
ls seeded | xargs -P "${1:-4}" -I{} sh -c 'id=$(echo {} | cut -c1-3); out=$(tools/seedtest.sh /verif/seeded/{}/patch.diff $id 2>&1); rc=$(echo "$out" | grep -o "rc=[0-9]*" | tail -1); cl=$(echo "$out" | grep -m1 "violated clause" | cut -c1-90); echo "{} $rc $cl $(echo "$out" | grep -m1 "DOES NOT APPLY")"'
