#!/opt/veriftools/pyvenv/bin/python
import json, sys, glob, jsonschema
m = json.load(open('/verif/MANIFEST.json'))
jsonschema.validate(m, json.load(open('/root/.vp/MANIFEST.schema.json')))
es = json.load(open('/root/.vp/EVIDENCE.schema.json'))
for f in sorted(glob.glob('/verif/evidence/*.json')):
    try:
        jsonschema.validate(json.load(open(f)), es); print('ok', f)
    except Exception as e:
        print('INVALID', f, str(e)[:300])
print('manifest ok; claimed', len(m['checks']))
