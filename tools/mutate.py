#!/venv/bin/python
"""Sensitivity testing: apply each mutation of tools/mutations/<id>.py to a scratch copy of the repo
(under /tmp, removed afterwards) and run ./check <ID> against it (VERIF_REPO). Reports caught / MISSED.

usage: tools/mutate.py C02 [name-substring] [--tier quick] [--keep]
A mutation is (name, file, old, new) or (name, [(file, old, new), ...]) — exact, unique string replacement(s).
"""
import importlib.util
import os
import shutil
import subprocess
import sys
import tempfile
import time
from concurrent.futures import ThreadPoolExecutor

HERE = os.path.dirname(os.path.dirname(os.path.abspath(__file__)))
REPO = os.environ.get('VERIF_REPO', '/repo')


def run_one(pid, m, tier):
    name = m[0]
    edits = m[1] if isinstance(m[1], list) else [m[1:4]]
    d = tempfile.mkdtemp(prefix='mut-%s-' % pid, dir='/tmp')
    try:
        shutil.copytree(os.path.join(REPO, 'circuits'), os.path.join(d, 'circuits'),
                        ignore=shutil.ignore_patterns('__pycache__'))
        for rel, old, new in edits:
            p = os.path.join(d, rel)
            src = open(p).read()
            if src.count(old) < 1:
                return name, 'NOMATCH', '', 0
            if src.count(old) != 1:
                return name, 'AMBIGUOUS(%d)' % src.count(old), '', 0
            open(p, 'w').write(src.replace(old, new, 1))
            # must still compile
            r = subprocess.run([sys.executable, '-m', 'py_compile', p], capture_output=True, text=True)
            if r.returncode:
                return name, 'SYNTAX', r.stderr[-300:], 0
        env = dict(os.environ, VERIF_REPO=d, VERIF_OUT=os.path.join(d, 'out'))
        env.pop('_VERIF_CHILD', None)
        t0 = time.time()
        try:
            r = subprocess.run([os.path.join(HERE, 'check'), pid, '--tier', tier], capture_output=True, text=True, env=env, timeout=int(os.environ.get("MUT_TIMEOUT", "600")), start_new_session=True)
        except subprocess.TimeoutExpired:
            subprocess.run(['pkill', '-f', d])
            return name, 'TIMEOUT', '', time.time() - t0
        dt = time.time() - t0
        out = r.stdout + r.stderr
        if r.returncode == 1 and 'VIOLATION property=' in out:
            cl = [l for l in out.splitlines() if l.startswith('violated clause')]
            return name, 'caught', (cl[0][:200] if cl else ''), dt
        if r.returncode == 0:
            return name, 'MISSED', '', dt
        return name, 'rc=%d' % r.returncode, out[-600:], dt
    finally:
        shutil.rmtree(d, ignore_errors=True)


def main():
    args = [a for a in sys.argv[1:] if not a.startswith('--')]
    pid = args[0].upper()
    sub = args[1] if len(args) > 1 else ''
    tier = 'thorough' if '--thorough' in sys.argv else 'quick'
    spec = importlib.util.spec_from_file_location('m', os.path.join(HERE, 'tools', 'mutations', pid.lower() + '.py'))
    mod = importlib.util.module_from_spec(spec)
    spec.loader.exec_module(mod)
    muts = [m for m in mod.MUTATIONS if sub in m[0]]
    par = int(os.environ.get('MUT_PAR', '4'))
    with ThreadPoolExecutor(par) as ex:
        res = list(ex.map(lambda m: run_one(pid, m, tier), muts))
    bad = 0
    for name, status, info, dt in res:
        print('%-8s %-45s %6.1fs %s' % (status, name, dt, info))
        if status != 'caught':
            bad += 1
    # evidence of the real tree must not be clobbered by mutation runs
    print('%d/%d caught' % (len(res) - bad, len(res)))
    return 1 if bad else 0


if __name__ == '__main__':
    sys.exit(main())
