#!/usr/bin/env python3
"""Merge findings.d/*.json into known_findings.json, translating fix-branch shas to the sha of the commit with the same
subject on /repo main; merged fragments are deleted."""
import glob, json, os, subprocess, sys
HERE = os.path.dirname(os.path.dirname(os.path.abspath(__file__)))
main = {}
for line in subprocess.check_output(['git', '-C', '/repo', 'log', '--format=%h\t%s', 'main'], text=True).splitlines():
    h, s = line.split('\t', 1)
    main.setdefault(s, h)
def subject(sha):
    try:
        return subprocess.check_output(['git', '-C', '/repo', 'log', '-1', '--format=%s', sha], text=True, stderr=subprocess.DEVNULL).strip()
    except subprocess.CalledProcessError:
        return None
kf = json.load(open(os.path.join(HERE, 'known_findings.json')))
ids = {f['id'] for f in kf['findings']}
for path in sorted(glob.glob(os.path.join(HERE, 'findings.d', '*.json'))):
    if sys.argv[1:] and os.path.basename(path)[:-5] not in sys.argv[1:]:
        continue
    for f in json.load(open(path)).get('findings', []):
        if f['id'] in ids:
            continue
        if f.get('commit'):
            s = subject(f['commit'].split()[0])
            if s is None or s not in main:
                print('WARNING: no commit on main for', f['id'], f.get('commit'), s)
            else:
                f['commit'] = main[s]
        if f.get('replay') and not os.path.exists(os.path.join(HERE, f['replay'])):
            print('WARNING: replay missing', f['id'], f['replay'])
        kf['findings'].append(f)
        ids.add(f['id'])
        print('merged', f['id'], f.get('status'), f.get('commit'))
    os.remove(path)
json.dump(kf, open(os.path.join(HERE, 'known_findings.json'), 'w'), indent=1)
