#!/bin/sh
# usage: tools/pick.sh fix-cNN   — cherry-pick the branch's commits onto /repo main, print "old new subject"
set -e
cd /repo
for c in $(git rev-list --reverse main..$1); do
  subj=$(git log -1 --format=%s $c)
  if git cherry-pick -x $c >/tmp/pick.log 2>&1; then
    # drop the "(cherry picked from ...)" line to keep messages clean
    git commit --amend -q -m "$(git log -1 --format=%B | grep -v '^(cherry picked from')"
    echo "$(git rev-parse --short $c) $(git rev-parse --short HEAD) $subj"
  else
    if git status | grep -q "nothing to commit\|The previous cherry-pick is now empty"; then
      git cherry-pick --skip
      echo "$(git rev-parse --short $c) SKIPPED-EMPTY $subj"
    else
      echo "CONFLICT at $c: $subj"; git status --short | head; exit 1
    fi
  fi
done
