#!/bin/sh
# usage: tools/seed_confirm.sh <agent worktree> <N> <ID> <slug> "<test dirs>"
# Confirms in a fresh scratch worktree of /repo main: demo passes without the patch, fails with it, the listed tests pass with it;
# then stores patch, demo and meta.json under /verif/seeded/<ID>-<slug>/ and records the verdict of ./check <ID>.
src=$1; n=$2; id=$3; slug=$4; tests=$5
w=$(mktemp -d /tmp/conf-XXXXXX); rmdir $w
git -C /repo worktree add -q --detach $w main || exit 3
cp $src/demo$n.py $w/demo.py
cd $w
/venv/bin/python demo.py >$w.demo0.log 2>&1; d0=$?
git apply --whitespace=nowarn $src/patch$n.diff || { echo "patch does not apply"; cd /; git -C /repo worktree remove --force $w; exit 3; }
/venv/bin/python demo.py >$w.demo1.log 2>&1; d1=$?
timeout -k 10 1500 /venv/bin/python -m pytest $tests -q -p no:cacheprovider --timeout=900 -q --deselect tests/core/test_signals.py --deselect tests/io/test_process.py::test2 --deselect "tests/net/test_tcp.py::test_tcp_lookup_failure" > $w.tests.log 2>&1; t=$?
tsum=$(tail -1 $w.tests.log)
cd /verif
chk=$(VERIF_REPO=$w VERIF_OUT=$w/out ./check $id 2>&1 | grep -E "^violated clause|rc=" | head -2 | cut -c1-200 | tr '\n' ' ')
VERIF_REPO=$w VERIF_OUT=$w/out ./check $id >/dev/null 2>&1; rc=$?
echo "$id-$slug: demo without=$d0 with=$d1 tests_rc=$t ($tsum) check_rc=$rc $chk"
if [ $d0 = 0 ] && [ $d1 != 0 ] && [ $t = 0 ]; then
  o=/verif/seeded/$id-$slug; mkdir -p $o
  cp $src/patch$n.diff $o/patch.diff; cp $src/demo$n.py $o/demo.py
  cat > $o/meta.json <<EOM
{"property": "$id", "slug": "$slug", "source": "independent sub-agent given only the property text",
 "confirmed": {"demo_exit_without_patch": $d0, "demo_exit_with_patch": $d1, "tests": "$tests", "tests_result": "$tsum"},
 "check_quick_exit_with_patch": $rc}
EOM
fi
git -C /repo worktree remove --force $w; rm -f $w.demo0.log $w.demo1.log $w.tests.log
