#!/venv/bin/python
"""Regenerate MANIFEST.json from the table below; a property is claimed iff props/<id>.py exists and it is in CLAIMS."""
import json
import os

HERE = os.path.dirname(os.path.dirname(os.path.abspath(__file__)))
BASELINE = "cd /repo && /venv/bin/python -m pytest -ra -q -p no:cacheprovider --timeout=900 --continue-on-collection-errors"

# id -> (category, technique, level text, level note, design ref)
CLAIMS = {}
NOT_BUILT = "check not built yet in this session (see DESIGN.md section 5 for the planned design)"


def claim(pid, category, technique, text, note):
    CLAIMS[pid] = (category, technique, text, note, 'DESIGN.md section 5, ' + pid)


exec(open(os.path.join(HERE, 'tools', 'claims.py')).read())

ids = [json.loads(l)['id'] for l in open(os.path.join(HERE, 'properties.jsonl'))]
checks = []
na = []
for pid in ids:
    if pid in CLAIMS and os.path.exists(os.path.join(HERE, 'props', pid.lower() + '.py')):
        cat, tech, text, note, ref = CLAIMS[pid]
        checks.append({
            'property_id': pid,
            'quick_cmd': './check %s --tier quick' % pid,
            'thorough_cmd': './check %s --tier thorough' % pid,
            'evidence_file': 'evidence/%s.json' % pid,
            'replay_cmd_template': './check %s --replay {path}' % pid,
            'engine': 'pbt',
            'level_claimed': {'category': cat, 'text': text, 'design_ref': ref},
            'level_note': note,
            'technique': tech,
        })
    else:
        na.append({'property_id': pid, 'reason': NOT_BUILT})

m = {
    'version': 1,
    'setup_cmd': './setup.sh',
    'hooks': {
        'guard': 'CIRCUITS_VERIF',
        'enable': 'no source hooks exist: observation uses events and module-global doubles installed by the harness; ./check sets CIRCUITS_VERIF=1 for uniformity',
        'baseline_off_cmd': BASELINE,
        'source_commits': [],
        'add_only': True,
    },
    'engines': [{
        'name': 'pbt', 'path': 'vlib/runner.py',
        'serves_properties': [c['property_id'] for c in checks],
        'kind_free_text': 'hypothesis-driven generated search (seeded, sharded over processes) + exhaustive enumeration of finite sub-domains + committed replay tier; one oracle module per property under props/',
    }],
    'checks': checks,
    'not_applicable': na,
    'notes': 'All checks run against the working tree of /repo (VERIF_REPO overrides for scratch copies). Exit 0 held / 1 VIOLATION / 2 harness error or inconclusive. known_findings.json lists genuine defects (open or fixed).',
}
json.dump(m, open(os.path.join(HERE, 'MANIFEST.json'), 'w'), indent=1)
print('claimed:', [c['property_id'] for c in checks])
print('not claimed:', [x['property_id'] for x in na])
