#!/bin/sh
# usage: tools/seedtest.sh <patch.diff> <ID> [tier]  — apply the patch to a scratch copy of /repo/circuits and run ./check ID against it
set -e
d=$(mktemp -d /tmp/seed-XXXXXX)
git -C /repo archive HEAD circuits | tar -x -C $d
( cd $d && git init -q . && git apply --whitespace=nowarn "$1" ) || { echo "PATCH DOES NOT APPLY"; rm -rf $d; exit 3; }
cd /verif
VERIF_REPO=$d VERIF_OUT=$d/out ./check "$2" --tier "${3:-quick}" > $d/log 2>&1 && rc=0 || rc=$?
grep -E "tier=|violated clause|VIOLATION|harness|inconclusive" $d/log | cut -c1-300 | head -6
echo "rc=$rc"
rm -rf $d
