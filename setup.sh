#!/bin/sh
# Offline setup: hypothesis into /venv if missing; atheris into /verif/.deps (used by thorough fuzz tiers only).
set -e
cd "$(dirname "$0")"
/venv/bin/python -c "import hypothesis" 2>/dev/null || \
  /venv/bin/pip install --no-index --find-links /opt/veriftools/wheels hypothesis
mkdir -p .deps
PYTHONPATH=.deps /venv/bin/python -c "import atheris" 2>/dev/null || \
  /venv/bin/pip install --no-index --find-links /opt/veriftools/wheels --target .deps atheris >/dev/null 2>&1 || \
  echo "atheris not installable; thorough fuzz tiers will be skipped"
exit 0
